"""blkreactor engine (C20; blocking-thread-session clauses of C11 and C12): the real hpfeeds.blocking Reactor,
ClientSession, Protocol and pollable Queue versus the Lean BlkSession / PollQueue models.

The reactor is not started as a thread: the harness calls Reactor._connect() and Reactor._select() itself,
one call per script event, with a scripted socket (recv returns the scripted chunks, each send() of the round
accepts the scripted byte count or raises EAGAIN/EWOULDBLOCK) and a select() that reports the scripted
socket's readiness and the REAL readiness of the outbox's socket pair.  Application calls (subscribe /
unsubscribe / publish, put / get on a stand-alone queue) run in real threads that the harness stops

  * at GATES (model-level schedule, compared with the Lean model event by event):
      A = ClientSession._write is about to test when_connected (it has already picked the outbox),
      B = queue.Queue.put is done and the wake-up byte is about to be sent,
      C = the wake-up byte was received and queue.Queue.get is about to run;
  * or at EVERY LINE of hpfeeds/blocking/*.py (fine schedule, sys.settrace; property monitors only): the
    failing-input search for preemption points the model's granularity does not have.

Everything is sequential from the harness's point of view (one thread runs at a time), so a script replays."""
import array
import errno
import fcntl
import json
import os
import random
import select as real_select
import socket
import sys
import termios
import threading
import types

import compat  # noqa: F401
from engines import Result
from engines.broker import hx
from lean_driver import hexf, hexin, fnv1a

import hpfeeds.protocol as P
import hpfeeds.blocking.queue as BQ
import hpfeeds.blocking.reactor as BR
import hpfeeds.blocking.session as BS

compat.check_repo_origin(BS)

WAIT = 20.0
BLOCKING_DIR = os.path.dirname(os.path.abspath(BS.__file__))


class WouldBlock(Exception):
    """the scripted select() has nothing ready"""


class HarnessTimeout(Exception):
    pass


class WouldHang(BaseException):
    """a real recv() on a wake-up socket would block while every other thread is stopped"""


_tls = threading.local()


class AppThread(object):
    """one application thread, stopped and resumed by the harness"""

    def __init__(self, fn, fine=False):
        self.cv = threading.Condition()
        self.where = None
        self.stopped = False
        self.done = False
        self.go = False
        self.err = None
        self.result = None
        self.fine = fine
        self.th = threading.Thread(target=self._body, args=(fn,), daemon=True)
        self.th.start()
        self.wait_stop()

    def _tracer(self, frame, event, arg):
        fn = frame.f_code.co_filename
        if not fn.startswith(BLOCKING_DIR):
            return None
        if event == 'line':
            self.arrive('L:%s:%d' % (os.path.basename(fn), frame.f_lineno))
        return self._tracer

    def _body(self, fn):
        _tls.gate = self
        try:
            if self.fine:
                sys.settrace(self._tracer)
            self.result = fn()
        except BaseException as e:     # noqa: B902 - WouldHang is a BaseException on purpose
            self.err = e
        finally:
            sys.settrace(None)
            _tls.gate = None
            with self.cv:
                self.done = True
                self.stopped = False
                self.cv.notify_all()

    def arrive(self, where):            # runs in the application thread
        if self.fine and not where.startswith('L:'):
            return                      # fine mode stops at lines only
        with self.cv:
            self.where = where
            self.stopped = True
            self.go = False
            self.cv.notify_all()
            if not self.cv.wait_for(lambda: self.go, WAIT):
                raise HarnessTimeout('gate %s never released' % where)

    def wait_stop(self):
        with self.cv:
            if not self.cv.wait_for(lambda: self.stopped or self.done, WAIT):
                raise HarnessTimeout('application thread neither reached a stop nor finished (%r)' % self.where)

    def advance(self):
        with self.cv:
            if self.done:
                return
            self.stopped = False
            self.go = True
            self.cv.notify_all()
        self.wait_stop()

    def finish(self, limit=400):
        for _ in range(limit):
            if self.done:
                break
            self.advance()
        self.th.join(WAIT)

    def at(self):
        return None if self.done else self.where


def pending_bytes(sock):
    buf = array.array('i', [0])
    fcntl.ioctl(sock.fileno(), termios.FIONREAD, buf)
    return buf[0]


class GateSock(object):
    """wraps one end of a Queue's socket pair"""

    def __init__(self, sock):
        self._sock = sock

    def send(self, data):
        g = getattr(_tls, 'gate', None)
        if g is not None:
            g.arrive('B')
        return self._sock.send(data)

    def recv(self, n):
        g = getattr(_tls, 'gate', None)
        if pending_bytes(self._sock) == 0:
            # the pair is blocking: with no byte in it this recv() never returns - in an application thread behind a
            # gate, and just as well in the reactor's own round (which the harness runs itself)
            raise WouldHang('recv on the wake-up socket with no byte in it')
        d = self._sock.recv(n)
        if g is not None:
            g.arrive('C')
        return d

    def fileno(self):
        return self._sock.fileno()

    def close(self):
        self._sock.close()


class GQueue(BQ.Queue):
    """the real pollable Queue; only its two sockets are wrapped (for the gates) and puts are logged"""
    eng = None

    def __init__(self):
        super(GQueue, self).__init__()
        # the two ends of the wake-up pair are found by TYPE, not by name (a rewrite may rename the private attributes)
        self._gated = []
        for name, val in list(vars(self).items()):
            if isinstance(val, socket.socket):
                g = GateSock(val)
                setattr(self, name, g)
                self._gated.append(g)
        self.putlog = []
        self.putcur = []
        self.taken = 0          # bytes of the items taken out of this queue (queue.Queue's own _get hook)

    def _get(self):
        item = super(GQueue, self)._get()
        try:
            self.taken += len(item)
        except Exception:
            pass
        return item

    def _put(self, item):       # queue.Queue's own hook, called under its mutex: the true queue order
        r = self.eng.reactor if self.eng is not None else None
        self.putlog.append(item)
        # `current`: this queue is the reactor's outbox and its connection is up (anything else is never sent)
        self.putcur.append(bool(r is not None and getattr(r, '_outbox', None) is self and getattr(r, 'sock', None) is not None))
        return super(GQueue, self)._put(item)

    def readable(self):
        return bool(real_select.select([self], [], [], 0)[0])

    def dispose(self):
        for s in self._gated:
            try:
                s.close()
            except Exception:
                pass


class GatedEvent(object):
    """when_connected: application threads stop before testing it (gate A)"""

    def __init__(self):
        self._e = threading.Event()

    def is_set(self):
        g = getattr(_tls, 'gate', None)
        if g is not None:
            g.arrive('A')
        return self._e.is_set()

    isSet = is_set

    def raw(self):
        return self._e.is_set()

    def set(self):
        self._e.set()

    def clear(self):
        self._e.clear()

    def wait(self, timeout=None):
        return self._e.wait(timeout)


class SortedSet(set):
    """a set whose iteration order is fixed (any order is a legal set order)"""

    def __iter__(self):
        return iter(sorted(set.__iter__(self), key=lambda c: c.encode() if isinstance(c, str) else c))


class FakeSock(object):
    def __init__(self, eng, k):
        self.eng, self.k = eng, k
        self.pending = []
        self.eof = False
        self.closed = False
        self.recvd = b''

    def setblocking(self, f):
        pass

    def settimeout(self, t):
        pass

    def setsockopt(self, *a):
        pass

    def fileno(self):
        return -1 if self.closed else 1000 + self.k

    def recv(self, n):
        if self.closed:
            raise socket.error(errno.EBADF, 'Bad file descriptor')
        if self.pending:
            c = self.pending[0]
            out, rest = c[:n], c[n:]
            if rest:
                self.pending[0] = rest
            else:
                self.pending.pop(0)
            self.recvd += out
            return out
        if self.eof:
            return b''
        raise socket.error(errno.EWOULDBLOCK, 'would block')

    def send(self, data):
        if self.closed:
            raise socket.error(errno.EBADF, 'Bad file descriptor')
        o = self.eng.send_outcome.pop(0) if self.eng.send_outcome else 'again'
        if o == 'again':
            self.eng.sendstats.append('again')
            raise socket.error(self.eng.again_errno, 'try again')
        n = min(int(o[1:]), len(data))
        if len(data) == 0:
            # send() with NOTHING to send: a real socket returns 0, which the reactor reads as "write failed" and drops
            # the connection - a healthy connection lost to the reactor's own bookkeeping, with whatever was queued
            self.eng.sent_empty = self.k
        taken = bytes(data[:n])
        if n:
            self.eng.out.append('S%d:%s' % (self.k, hexf(taken)))
            self.eng.wire.setdefault(self.k, bytearray()).extend(taken)
        self.eng.sendstats.append('partial' if n < len(data) else 'full')
        return n

    def close(self):
        if not self.closed:
            self.closed = True
            self.eng.out.append('close%d' % self.k)


class FakeSelect(object):
    error = real_select.error

    def __init__(self, eng):
        self.eng = eng

    def select(self, r, w, x, timeout=None):
        rr, ww = [], []
        for o in list(r) + list(w):
            if isinstance(o, FakeSock) and o.closed:
                raise ValueError('file descriptor cannot be a negative integer (-1)')
        for o in r:
            if isinstance(o, FakeSock):
                if o.pending or o.eof:
                    rr.append(o)
            elif real_select.select([o], [], [], 0)[0]:
                rr.append(o)
        for o in w:
            ww.append(o)
        if not rr and not ww:
            raise WouldBlock()
        return rr, ww, []


class Impl(object):
    def __init__(self, ident, secret, fine=False):
        self.fine = fine
        self.out = []
        self.wire = {}
        self.send_outcome = []
        self.again_errno = errno.EAGAIN
        self.sendstats = []
        self.queues = []
        self.gen = 0
        self.dead = False
        self.crash = None
        self.hung = False
        self.sent_empty = None
        self.crash_in_write_path = False
        self.socks = {}
        self.threads = {}       # t -> AppThread
        self.handed = []
        self.apperrs = []
        self._saved = (BR.select, BR.queue, BS.Queue)
        BR.select = FakeSelect(self)
        # Reactor does `queue.Queue()` through its module reference; the session imported the name
        BR.queue = types.SimpleNamespace(Queue=self._mk, Empty=BQ.Empty)
        BS.Queue = self._mk
        self.session = BS.ClientSession('broker.example', 10000, ident, secret)
        self.reactor = self.session._reactor
        self.reactor.when_connected = GatedEvent()
        self.reactor.connector = self._connector
        self.session.subscriptions = SortedSet()
        self.outbox_of = {0: self.reactor._outbox}
        for q in self.queues:
            q.eng = self

    def _mk(self):
        q = GQueue()
        q.eng = self if hasattr(self, 'reactor') else None
        self.queues.append(q)
        return q

    def _connector(self):
        self.gen += 1
        s = FakeSock(self, self.gen)
        self.socks[self.gen] = s
        return s

    def live(self):
        return getattr(self.reactor, 'sock', None) is not None

    # ---- events
    def event(self, ev):
        self.out = []
        k = ev[0]
        r = self.reactor
        if k == 'connect':
            if not self.dead and not self.live():
                r._connect()
                self.outbox_of[self.gen] = r._outbox
        elif k == 'inb':
            s = getattr(r, 'sock', None)
            if s is not None and not s.eof and hx(ev[1]):
                s.pending.append(hx(ev[1]))
        elif k == 'eof':
            s = getattr(r, 'sock', None)
            if s is not None:
                s.eof = True
        elif k == 'sel':
            if not self.dead and self.live():
                self.send_outcome = list(ev[1:])
                self.again_errno = errno.EWOULDBLOCK if (self.gen + len(self.sendstats)) % 2 else errno.EAGAIN
                cur = self.gen
                try:
                    r._select()
                except WouldBlock:
                    self.out.append('block')
                except HarnessTimeout:
                    raise
                except WouldHang:           # the reactor thread would sit in recv() on its own wake-up socket for ever
                    self.dead = True
                    self.hung = True
                    self.crash = 'WouldHang'
                    self.out.append('crash')
                except Exception as e:      # the reactor thread would end here
                    self.dead = True
                    self.crash = repr(e)
                    import traceback as _tb
                    fr_ = _tb.extract_tb(e.__traceback__)
                    # WHERE it ended: in the write path (servicing the outbox / the wake-up queue) or elsewhere (an
                    # OP_ERROR or a protocol error on the read path and a failing select() end the thread by design)
                    self.crash_in_write_path = any(f.name in ('_outbox_read_ready', '_socket_write_ready') or
                                                   f.filename.replace(os.sep, '/').endswith('hpfeeds/blocking/queue.py') for f in fr_)
                    self.out.append('crash')
                # classify socket closes: the reactor forgetting the socket is a loss, otherwise transport.close()
                if r.sock is None:
                    self.out = [('L%d' % cur) if o == 'close%d' % cur else o for o in self.out]
                self.out = [('X' + o[5:]) if o.startswith('close') else o for o in self.out]
        elif k == 'wbegin':
            t = int(ev[1])
            if t not in self.threads:
                op = ev[2]
                if op == 'sub':
                    fn = lambda: self.session.subscribe(hx(ev[3]).decode())
                elif op == 'unsub':
                    fn = lambda: self.session.unsubscribe(hx(ev[3]).decode())
                else:
                    fn = lambda: self.session.publish(hx(ev[3]).decode(), hx(ev[4]))
                self.threads[t] = AppThread(fn, fine=self.fine)
                self._reap(t)
        elif k in ('wcheck', 'wwake'):
            t = int(ev[1])
            th = self.threads.get(t)
            if th is not None and th.at() == ('A' if k == 'wcheck' else 'B'):
                th.advance()
                self._reap(t)
        elif k == 'tstep':      # fine schedule: one line of thread t
            t = int(ev[1])
            th = self.threads.get(t)
            if th is not None:
                th.advance()
                self._reap(t)
        elif k == 'read':
            q = self.session.read_queue
            if q.qsize() > 0:
                i, c, p = self.session.read()
                self.out.append('H:%s:%s:%s' % (hexf(i.encode()), hexf(c.encode()), hexf(bytes(p))))
                self.handed.append((i, c, bytes(p)))
        return self.out

    def _reap(self, t):
        th = self.threads[t]
        if th.done:
            th.th.join(WAIT)
            del self.threads[t]
            if th.err is not None:
                self.apperrs.append(repr(th.err))
                self.out.append('apperr')

    def thread_state(self, t):
        th = self.threads.get(t)
        if th is None:
            return 'idle'
        return {'A': 'captured', 'B': 'midput'}.get(th.at(), 'running')

    def state(self):
        r = self.reactor
        ob = r._outbox
        proto = getattr(r, 'protocol', None)
        ubuf = compat.unconsumed(proto.unpacker) if proto is not None else 0
        subs = sorted(c.encode() for c in set.__iter__(self.session.subscriptions))
        # the frames put into the current outbox, in true queue order, and the bytes its socket accepted (the
        # model's ghosts `enq` and `wire`), as length + hash
        enq = b''.join(bytes(x) for x in ob.putlog) if self.gen else b''
        nenq = len(ob.putlog) if self.gen else 0
        wire = bytes(self.wire.get(self.gen, b''))
        return 'buf=%d q=%d rd=%d ready=%d live=%d ubuf=%d rq=%d subs=[%s] enq=%d:%d wire=%d:%d' % (
            # the reactor's pending output, independent of how it is stored: what it took out of the current outbox
            # minus what the current socket accepted
            max(0, getattr(ob, 'taken', 0) - len(wire)) if self.gen else 0, ob.qsize(), 1 if ob.readable() else 0,
            1 if r.when_connected.raw() else 0, 1 if self.live() else 0,
            ubuf, self.session.read_queue.qsize(), ','.join(hexf(c) for c in subs),
            nenq, fnv1a(enq), len(wire), fnv1a(wire))

    def close(self):
        for t in list(self.threads):
            try:
                self.threads[t].finish()
            except Exception:
                pass
        BR.select, BR.queue, BS.Queue = self._saved
        for q in self.queues:
            q.dispose()


# ---------------------------------------------------------------- generation

def info_frame(rng):
    name = rng.choice(['hp', 'bröker', ''])
    return P.msginfo(name, bytes(rng.randrange(256) for _ in range(rng.choice([4, 4, 4, 0, 9]))))


def cut(rng, data, maxparts=4):
    if len(data) < 2 or rng.random() < 0.3:
        return [data]
    n = rng.randrange(1, maxparts)
    pts = sorted(set(rng.randrange(1, len(data)) for _ in range(n)))
    return [data[a:b] for a, b in zip([0] + pts, pts + [len(data)])]


def inbound_stream(rng, profile):
    out = b''
    if profile != 'faults' or rng.random() < 0.8:
        out += info_frame(rng)
    for _ in range(rng.randrange(0, 5)):
        r = rng.random()
        if profile == 'faults' and r < 0.25:
            out += rng.choice([P.msgerror('nope'), P.msgsubscribe('x', 'c'), P.msgauth(b'1234', 'a', 'b'), info_frame(rng),
                               b'\x00\x00\x00\x03\x01', b'\x00\x00\x00\x09\x03\x05ab', P.msghdr(P.OP_PUBLISH, b'\x02\xff\xfe\x01c'),
                               P.msghdr(9, b'zz'), b'\x7f\xff\xff\xff\x03'])
        else:
            size = rng.choice([0, 1, 5, 40, 300, 1500, 2600])
            out += P.msgpublish(rng.choice(['a', 'bob', 'üser']), rng.choice(['c', 'ch2', 'känal']),
                                bytes(rng.randrange(256) for _ in range(size)))
    return out


ALL = 'a1048576'


def one_outcome(rng, profile):
    r = rng.random()
    if profile == 'partial':
        if r < 0.25:
            return 'again'
        if r < 0.8:
            return 'a%d' % rng.choice([1, 1, 2, 3, 4, 5, 7, 13, 27, 28, 29, 64])
        return ALL
    if r < 0.1:
        return 'again'
    if r < 0.3:
        return 'a%d' % rng.choice([1, 2, 5, 9, 20, 100])
    if r < 0.31:
        return 'a0'
    return ALL


def send_outcome(rng, profile):
    """outcomes of the successive send() calls of one _select() round (the code makes at most one; a rewrite
    that loops sees the following ones: partial sends followed by EAGAIN, ...)"""
    return tuple(one_outcome(rng, profile) for _ in range(rng.choice([1, 2, 3])))


CHANS = ['c', 'ch2', 'känal', 'x' * 40]


def gen_and_run(rng, tier, ident, secret, profile, fine=False):
    impl = Impl(ident, secret, fine=fine)
    events, lines = [], []

    def do(ev):
        outs = impl.event(ev)
        events.append(list(ev))
        lines.append(';'.join(outs) + ' | ' + impl.state() + (' dead' if impl.dead else ''))

    def app_call(t):
        ch = rng.choice(CHANS)
        op = rng.choice(['sub', 'sub', 'unsub', 'pub', 'pub'])
        if op == 'pub':
            size = rng.choice([0, 3, 60, 700] + ([5000] if profile == 'partial' else []))
            do(('wbegin', t, 'pub', hexin(ch.encode()), hexin(bytes(rng.randrange(256) for _ in range(size)))))
        else:
            do(('wbegin', t, op, hexin(ch.encode())))

    def move(t):
        if fine:
            do(('tstep', t))
        else:
            do(('wcheck' if impl.thread_state(t) == 'captured' else 'wwake', t))

    steps = rng.randrange(12, 50 if tier == 'quick' else 90) * (2 if fine else 1)
    nthreads = rng.choice([1, 2, 3])
    if profile == 'early':
        # application calls before the connection is up / before OP_INFO
        for _ in range(rng.randrange(1, 4)):
            t = rng.randrange(nthreads)
            if impl.thread_state(t) == 'idle':
                do(('wbegin', t, 'sub', hexin(rng.choice(CHANS).encode())))
                if rng.random() < 0.7 and impl.thread_state(t) != 'idle':
                    move(t)
    do(('connect',))
    stream = inbound_stream(rng, profile)
    chunks = cut(rng, stream, 5)
    for _ in range(steps):
        live = impl.live()
        r = rng.random()
        moved = [t for t in range(nthreads) if impl.thread_state(t) != 'idle']
        if r < 0.14 and chunks and live:
            do(('inb', hexin(chunks.pop(0))))
        elif r < 0.40:
            if live and not impl.dead:
                do(('sel',) + send_outcome(rng, profile))
            elif not impl.dead:
                do(('connect',))
                stream = inbound_stream(rng, profile)
                chunks = cut(rng, stream, 5)
        elif r < 0.58:
            t = rng.randrange(nthreads)
            if impl.thread_state(t) == 'idle':
                app_call(t)
        elif r < 0.84 and moved:
            move(rng.choice(moved))
        elif r < 0.92:
            do(('read',))
        elif r < 0.96 and live and profile in ('reconnect', 'faults', 'early'):
            do(('eof',))
        elif live and chunks:
            do(('inb', hexin(chunks.pop(0))))
    # wind down: let every application thread finish, deliver what is left, drain the write path
    for t in range(nthreads):
        for _ in range(400):
            if impl.thread_state(t) == 'idle':
                break
            move(t)
    for _ in range(400):
        if impl.dead or not impl.live():
            break
        do(('sel', ALL))
        if lines[-1].startswith('block'):
            break
    while impl.session.read_queue.qsize():
        do(('read',))
    return events, lines, impl


# ---------------------------------------------------------------- monitors (implementation trace only)

def monitors(res, cfg, events, lines, impl, script):
    ident, secret = cfg
    from engines.codec import parse_frames
    tag = ' [line-level schedule]' if script.get('fine') else ''
    for k, sock in impl.socks.items():
        wire = bytes(impl.wire.get(k, b''))
        q = impl.outbox_of.get(k)
        enq = b''.join(bytes(x) for x in (q.putlog if q else []))
        # C20: the bytes the socket accepted are a prefix of the frames put into that connection's outbox, in
        # queue order; after the final drain they are all of them
        if not enq.startswith(wire):
            res.violation('C20', 'wire-prefix', 'blocking reactor: the bytes accepted by the socket of connection %d are not a prefix of the frames written to it in queue order (first difference at byte %d)%s' % (k, next((i for i, (a, b) in enumerate(zip(wire, enq)) if a != b), min(len(wire), len(enq))), tag), script)
        elif k == impl.gen and not impl.dead and impl.live() and not impl.threads and wire != enq:
            res.violation('C20', 'not-drained', 'blocking reactor: every application thread finished and send() accepted everything offered, yet %d byte(s) written to connection %d never reached the socket%s' % (len(enq) - len(wire), k, tag), script)
        # C11 (blocking session): nothing before the connection's OP_INFO; first frame = OP_AUTH for its nonce
        frames, _ = parse_frames(sock.recvd)
        info = next(((op, body) for op, body in frames if op == P.OP_INFO), None)
        puts = [bytes(x) for x, cur in zip(q.putlog, q.putcur) if cur] if q else []
        if wire and info is None:
            res.violation('C11', 'write-before-info', 'blocking thread session sent %d byte(s) on connection %d although no OP_INFO had been received on it%s' % (len(wire), k, tag), script)
        elif puts and info is None:
            res.violation('C11', 'write-before-info', 'blocking thread session queued %d frame(s) for the live connection %d although no OP_INFO had been received on it%s' % (len(puts), k, tag), script)
        elif (puts or wire) and info is not None and info[1]:
            n = info[1][0]
            rand = info[1][1 + n:]
            auth = P.msgauth(rand, ident, secret)
            if puts and puts[0] != auth:
                res.violation('C11', 'first-frame-auth', 'blocking thread session: the first frame queued for connection %d is not the OP_AUTH for that connection\'s nonce (it is opcode %d)%s' % (k, puts[0][4] if len(puts[0]) > 4 else -1, tag), script)
            elif wire and not (auth.startswith(wire) or wire.startswith(auth)):
                res.violation('C11', 'first-frame-auth', 'blocking thread session: the first bytes sent on connection %d are not the OP_AUTH for that connection\'s nonce%s' % (k, tag), script)
    # C12 (blocking session): values handed out are, in order, the PUBLISH frames received
    expected = []
    for k in sorted(impl.socks):
        frames, _ = parse_frames(impl.socks[k].recvd)
        for op, body in frames:
            if op == P.OP_INFO:
                continue
            if op != P.OP_PUBLISH:
                break
            try:
                n = body[0]; i = body[1:1 + n]; rest = body[1 + n:]; m = rest[0]; c = rest[1:1 + m]; p = rest[1 + m:]
                expected.append((i.decode(), c.decode(), bytes(p)))
            except Exception:
                break
    if script.get('legal'):
        if impl.handed != expected[:len(impl.handed)]:
            res.violation('C12', 'handed-sequence', 'blocking thread session: read() returned %r ..., the PUBLISH frames received are %r ...' % (impl.handed[:3], expected[:3]), script)
        elif len(impl.handed) < len(expected) and not impl.dead:
            res.violation('C12', 'message-lost', 'blocking thread session: %d PUBLISH frame(s) were received but only %d handed to read() with the queue empty' % (len(expected), len(impl.handed)), script)
    if getattr(impl, 'sent_empty', None) is not None and impl.sent_empty in impl.socks and impl.socks[impl.sent_empty].closed:
        res.violation('C20', 'healthy-connection-dropped', 'blocking reactor: it called send() on connection %d with an EMPTY buffer, took the 0 it got back for a failed write and dropped a healthy connection: frames queued for it never reach the socket%s' % (impl.sent_empty, tag), script)
    if getattr(impl, 'hung', False):
        res.violation('C20', 'reactor-blocks', 'blocking reactor: servicing its select()-readable outbox it called recv() on the wake-up socket with no byte in it - the reactor thread blocks for ever and the frames queued behind never reach the socket%s' % tag, script)
    if getattr(impl, 'crash_in_write_path', False):
        res.violation('C20', 'write-path-crashed', 'blocking reactor: an exception (%s) escaped while it was servicing its outbox / writing: the reactor thread ends and whatever is queued never reaches the socket%s' % (str(impl.crash)[:120], tag), script)
    if impl.apperrs:
        res.violation('C20', 'app-call-raised', 'blocking thread session: an application call raised %s%s' % (impl.apperrs[0][:200], tag), script)
    # C20, second sentence, on the real queues: select()-readable iff non-empty (no put half-way)
    if not impl.threads:
        for name, q in (('reactor outbox', impl.reactor._outbox), ('read_queue', impl.session.read_queue)):
            if q.readable() != (q.qsize() > 0):
                res.violation('C20', 'readable-iff-nonempty', 'pollable Queue (%s): select() says readable=%s while qsize()=%d with no put or get in progress%s' % (name, q.readable(), q.qsize(), tag), script)


# ---------------------------------------------------------------- stand-alone queue runs

def queue_case(res, drv, rng, tier, fine=False):
    """the real pollable Queue under scripted interleavings of put and get by several producer threads and
    consumer threads.  Gate level: the half-steps of the PollQueue model, compared with it event by event.
    Line level (fine): one consumer at a time, monitors only."""
    q = GQueue()
    events = []
    prod, cons = {}, {}
    script = {'client': 'pollqueue', 'fine': fine, 'events': events}
    outlog = []
    errors = []
    tag = ' [line-level schedule]' if fine else ''

    def reap(tbl, k):
        th = tbl[k]
        if th.done:
            th.th.join(WAIT)
            del tbl[k]
            if th.err is not None:
                errors.append(th.err)

    def check():
        rd = q.readable()
        n = q.qsize()
        if rd and n == 0 and not cons:
            res.violation('C20', 'readable-but-empty', 'pollable Queue: select()-readable with qsize()=0 and no get in progress%s' % tag, script)
        if not prod and not cons and rd != (n > 0):
            res.violation('C20', 'readable-iff-nonempty', 'pollable Queue: readable=%s with qsize()=%d and no put/get in progress%s' % (rd, n, tag), script)
        want = list(q.putlog)[:len(outlog)]
        if (not fine or len(cons) == 0) and outlog != want:
            res.violation('C20', 'queue-fifo', 'pollable Queue handed items out as %r, they were put as %r%s' % (outlog[:10], q.putlog[:10], tag), script)
        for e in errors:
            if isinstance(e, WouldHang):
                res.violation('C20', 'get-blocks', 'pollable Queue: get() started while the queue was select()-readable would block for ever in recv()%s' % tag, script)
            else:
                res.violation('C20', 'get-after-readable-failed', 'pollable Queue: put()/get() raised %r%s' % (e, tag), script)
        del errors[:]

    if drv is not None and not fine:
        drv.ask('q.reset')
    n = rng.randrange(8, 40 if tier == 'quick' else 120) * (3 if fine else 1)
    item = 0
    nerr = 0
    try:
        for _ in range(n):
            r = rng.random()
            if len(res.violations) > 40:
                break
            if r < 0.3 and len(prod) < 3:
                item += 1
                x = item
                key = len(events)
                prod[key] = AppThread(lambda: q.put(x), fine=fine)
                reap(prod, key)
                ev = ['enq', x]
            elif r < 0.55 and prod:
                k = rng.choice(sorted(prod))
                prod[k].advance()
                reap(prod, k)
                ev = ['wake'] if not fine else ['pstep', k]
            elif r < 0.8 and q.readable() and (not fine or not cons):
                key = len(events)
                cons[key] = AppThread(lambda: outlog.append(q.get(block=False)), fine=fine)
                reap(cons, key)
                ev = ['recv']
            elif cons:
                k = rng.choice(sorted(cons))
                cons[k].advance()
                reap(cons, k)
                ev = ['deq'] if not fine else ['cstep', k]
            else:
                continue
            events.append(ev)
            nerr += sum(1 for e in errors if not isinstance(e, WouldHang))
            rd = 1 if q.readable() else 0
            line = 'ok n=%d rd=%d out=[%s] empty=%d' % (q.qsize(), rd, ','.join(str(x) for x in outlog), nerr)
            check()
            if fine:
                continue
            if drv is not None:
                mo = drv.ask('q.ev ' + ' '.join(str(x) for x in ev))
                if mo != line:
                    res.disagree('pollable queue, event %d %r' % (len(events) - 1, ev), script, line, mo)
                    break
        # wind down
        for tbl in (prod, cons):
            for k in sorted(tbl):
                tbl[k].finish()
                reap(tbl, k)
        events.append(['end'])
        check()
    finally:
        for th in list(prod.values()) + list(cons.values()):
            try:
                th.finish()
            except Exception:
                pass
        q.dispose()
    res.evaluations += 1
    res.nontriv(events)
    res.note('queue.fine' if fine else 'queue.gates')
    return script


def backlog_case(res, n_items):
    """a backlog larger than the wake-up socket pair can hold (real threads, no gates): the producer may block
    in put() until the consumer reads (back-pressure), but once the producer is done every queued item must
    still be announced: readable iff non-empty, all items handed out, in order"""
    import time
    q = BQ.Queue()
    script = {'client': 'pollqueue-backlog', 'items': n_items, 'events': [['put', n_items], ['get-all']]}
    done = threading.Event()

    def producer():
        for i in range(n_items):
            q.put(i)
        done.set()
    th = threading.Thread(target=producer, daemon=True)
    th.start()
    # let it run until it finishes or stops making progress (blocked on the full socket pair)
    last, still = -1, 0
    while not done.is_set() and still < 5:
        time.sleep(0.02)
        n = q.qsize()
        still = still + 1 if n == last else 0
        last = n
    out = []
    stuck = None
    deadline = time.time() + 60
    while time.time() < deadline:
        if real_select.select([q], [], [], 0.05)[0]:
            out.append(q.get(block=False))
            continue
        if done.is_set():
            # nothing is half-way any more: the verdict is stable
            if not real_select.select([q], [], [], 0)[0]:
                if q.qsize() > 0:
                    stuck = q.qsize()
                break
    res.evaluations += 1
    res.note('queue.backlog')
    res.note('queue.backlog.blocked-producer' if len(out) and not stuck and last < n_items else 'queue.backlog.free')
    if stuck is not None:
        res.violation('C20', 'readable-iff-nonempty', 'pollable Queue after a backlog of %d puts: qsize()=%d but select() does not report it readable (no put or get in progress; %d items were handed out)' % (n_items, stuck, len(out)), script)
        res.violation('C12', 'message-stuck', 'blocking thread session read_queue after a backlog of %d messages: %d are queued but read() would block for ever (%d were handed out)' % (n_items, stuck, len(out)), script)
    elif out != list(range(len(out))) or (done.is_set() and len(out) != n_items):
        res.violation('C20', 'queue-fifo', 'pollable Queue after a backlog of %d puts handed out %d items, first %r' % (n_items, len(out), out[:8]), script)
        res.violation('C12', 'message-lost', 'blocking thread session read_queue: backlog of %d messages, %d handed out' % (n_items, len(out)), script)
    for sk in [v for v in vars(q).values() if isinstance(v, socket.socket)]:
        try:
            sk.close()
        except Exception:
            pass
    return script


# ---------------------------------------------------------------- engine entry points

def compare(res, drv, script, events, lines, label='blocking session'):
    if drv is None:
        return
    drv.ask('r.reset %s %s' % (hexin(script['ident'].encode()), hexin(script['secret'].encode())))
    for idx, (ev, line) in enumerate(zip(events, lines)):
        mo = drv.ask('r.ev ' + ' '.join(str(x) for x in ev))
        status, _, mline = mo.partition(' ')
        if status != 'ok':
            res.disagree('model rejects event %d %r' % (idx, ev[:2]), script, line, mo)
            break
        a, b = mline.strip(), line.strip()
        if ' dead' in a or ' dead' in b:
            # after the reactor thread ended only the outputs are compared (its buffers are garbage)
            a, b = a.split('|')[0].strip() + (' dead' if ' dead' in a else ''), b.split('|')[0].strip() + (' dead' if ' dead' in b else '')
        if a != b:
            res.disagree('%s, event %d %r' % (label, idx, ev[:3]), script, b[:900], a[:900])
            break


def run_case(res, drv, rng, tier, profile, fine=False):
    ident = rng.choice(['me', 'ident-é', ''])
    secret = rng.choice(['secret', 'sécret', ''])
    events, lines, impl = gen_and_run(rng, tier, ident, secret, profile, fine=fine)
    script = {'client': 'blocking-session', 'ident': ident, 'secret': secret, 'events': events,
              'legal': profile != 'faults', 'fine': fine}
    try:
        monitors(res, (ident, secret), events, lines, impl, script)
    finally:
        impl.close()
    res.evaluations += 1
    res.note('session.fine' if fine else 'session.gates')
    for k in impl.sendstats:
        res.note('send.' + k)
    for l in lines:
        for o in l.split('|')[0].strip().split(';'):
            if o:
                res.note('obs.' + (o[0] if o[0] in 'SLXH' else o))
    if not fine:
        compare(res, drv, script, events, lines)
    return script


def run(tier, seed, drv, prop=None):
    res = Result('blkreactor')
    res.model_used = drv is not None
    rng = random.Random('blkreactor-%s-%s' % (prop, seed))
    n = {'quick': 120, 'thorough': 1500}[tier]
    profiles = {'C20': ['partial', 'partial', 'normal', 'reconnect'], 'C11': ['early', 'normal', 'reconnect', 'early'],
                'C12': ['normal', 'normal', 'reconnect', 'faults']}.get(prop, ['normal', 'partial', 'early', 'reconnect', 'faults'])
    for k in range(n):
        script = run_case(res, drv, rng, tier, profiles[k % len(profiles)])
        res.nontriv([json.dumps(script['events'])[:4000]])
        res.sample({'events': [[str(x)[:40] for x in e] for e in script['events'][:14]]}, limit=3)
    # line-level schedules (failing-input search below the model's granularity)
    for k in range(n // 3):
        script = run_case(res, None, rng, tier, profiles[k % len(profiles)], fine=True)
        res.nontriv([json.dumps(script['events'])[:4000]])
    if prop in (None, 'C20', 'C12'):
        for n_items in ([1500] if tier == 'quick' else [300, 1500, 6000]):
            backlog_case(res, n_items)
    if prop in (None, 'C20'):
        for k in range({'quick': 60, 'thorough': 800}[tier]):
            queue_case(res, drv, rng, tier)
        for k in range({'quick': 150, 'thorough': 2000}[tier]):
            queue_case(res, None, rng, tier, fine=True)
    res.assumptions += [
        'blocking reactor: Reactor._connect/_select are called by the harness (the loop of run_forever is the script); the socket is scripted, select() is replaced by one that reports the scripted socket and the REAL readiness of the outbox socket pair',
        'application threads are real threads stopped at gates (model-level schedules) or at every line of hpfeeds/blocking/*.py (sys.settrace; monitors only); preemption inside a line is not explored',
        'queue.Queue\'s own lock and the atomicity of one send()/recv() system call are taken from the library / OS',
    ]
    return res


def replay(script, drv):
    res = Result('blkreactor')
    if script.get('client') == 'pollqueue-backlog':
        backlog_case(res, script['items'])
        return res
    if script.get('client') == 'pollqueue':
        res.errors.append('pollqueue scripts are re-found by seed, not replayed (their thread keys are positions in the run)')
        return res
    impl = Impl(script['ident'], script['secret'], fine=bool(script.get('fine')))
    lines = []
    try:
        for ev in script['events']:
            outs = impl.event(ev)
            lines.append(';'.join(outs) + ' | ' + impl.state() + (' dead' if impl.dead else ''))
        monitors(res, (script['ident'], script['secret']), script['events'], lines, impl, script)
    finally:
        impl.close()
    if not script.get('fine'):
        compare(res, drv, script, script['events'], lines)
    return res
