"""proto3 engine (C16): identical chunks are fed in lock-step to recording subclasses of the real asyncio,
blocking and Twisted ClientProtocol classes and to the three Lean models.  A difference between a real
class and ITS model is a correspondence failure; a difference between two real classes is the violation."""
import random
import struct

import compat  # noqa: F401
from engines import Result
from engines.codec import enc, rand_bytes, rand_text, lattice_lengths, cut
from lean_driver import hexf, hexin

import hpfeeds.protocol as P
import hpfeeds.asyncio.protocol as AIO
import hpfeeds.blocking.protocol as BLK
import hpfeeds.twisted.protocol as TW

for m in (AIO, BLK, TW):
    compat.check_repo_origin(m)


def b_(x):
    return x.encode('utf-8') if isinstance(x, str) else bytes(x)


class Rec(object):
    """shared recording mix-in"""

    def _init_rec(self):
        self.obs = []
        self.dropped = False

    def rec(self, *a):
        self.obs.append(':'.join([a[0]] + [hexf(b_(x)) for x in a[1:]]))


class FakeTransport(object):
    def __init__(self, owner):
        self.owner = owner

    def write(self, data):
        self.owner.obs.append('W:' + hexf(bytes(data)))

    def close(self):
        self.owner.obs.append('drop')
        self.owner.dropped = True

    loseConnection = close

    def is_closing(self):
        return self.owner.dropped


def make_aio(ident, secret):
    class A(Rec, AIO.ClientProtocol):
        def protocol_error(self, reason):
            self.obs.append('perr')

        def connection_ready(self):
            self.obs.append('ready')

        def on_error(self, error):
            self.rec('E', error)

        def on_info(self, name, rand):
            self.rec('I', name, rand)
            return super().on_info(name, rand)

        def on_auth(self, ident, secret):
            self.rec('A', ident, secret)
            return super().on_auth(ident, secret)

        def on_publish(self, ident, chan, data):
            self.rec('P', ident, chan, data)

        def on_subscribe(self, ident, chan):
            self.rec('S', ident, chan)
            return super().on_subscribe(ident, chan)

        def on_unsubscribe(self, ident, chan):
            self.rec('U', ident, chan)
            return super().on_unsubscribe(ident, chan)

    a = A(ident, secret)
    a._init_rec()
    a.connection_made(FakeTransport(a))
    return a, a.data_received


def make_blk(ident, secret):
    class B(Rec, BLK.ClientProtocol):
        def protocol_error(self, reason):
            self.obs.append('perr')

        def connection_ready(self):
            self.obs.append('ready')

        def on_error(self, error):
            self.rec('E', error)

        def on_info(self, name, rand):
            self.rec('I', name, rand)
            return super(B, self).on_info(name, rand)

        def on_auth(self, ident, hash):
            self.rec('A', ident, hash)
            return super(B, self).on_auth(ident, hash)

        def on_publish(self, ident, chan, data):
            self.rec('P', ident, chan, data)

        def on_subscribe(self, ident, channel):
            self.rec('S', ident, channel)
            return super(B, self).on_subscribe(ident, channel)

        def on_unsubscribe(self, ident, channel):
            self.rec('U', ident, channel)
            return super(B, self).on_unsubscribe(ident, channel)

    b = B(ident, secret)
    b._init_rec()
    b.transport = FakeTransport(b)
    b.connection_made()
    return b, b.data_received


def make_tw(ident, secret):
    class F(object):
        pass

    class T(Rec, TW.ClientProtocol):
        def protocolError(self, reason):
            self.obs.append('perr')

        def connectionReady(self):
            self.obs.append('ready')

        def onError(self, error):
            self.rec('E', error)

        def onInfo(self, name, rand):
            self.rec('I', name, rand)
            return TW.ClientProtocol.onInfo(self, name, rand)

        def onAuth(self, ident, secret):
            self.rec('A', ident, secret)
            return TW.ClientProtocol.onAuth(self, ident, secret)

        def onPublish(self, ident, chan, data):
            self.rec('P', ident, chan, data)

        def onSubscribe(self, ident, chan):
            self.rec('S', ident, chan)
            return TW.ClientProtocol.onSubscribe(self, ident, chan)

        def onUnsubscribe(self, ident, chan):
            self.rec('U', ident, chan)
            return TW.ClientProtocol.onUnsubscribe(self, ident, chan)

    t = T()
    t._init_rec()
    t.factory = F()
    t.factory.ident, t.factory.secret = ident, secret
    t.transport = FakeTransport(t)
    return t, t.dataReceived


def feed(inst, fn, chunk):
    inst.obs = []
    try:
        fn(chunk)
    except (TypeError, UnicodeDecodeError, NotImplementedError) as e:
        inst.obs.append('crash:' + type(e).__name__)
        inst.dropped = True
    except Exception as e:  # any other exception is an observation too
        inst.obs.append('crash:' + type(e).__name__)
        inst.dropped = True
    return '[' + ';'.join(inst.obs) + '] %d' % compat.unconsumed(inst.unpacker)


def gen_stream(rng, tier, want_parts=False):
    parts = []
    n = rng.randint(1, 7)
    for _ in range(n):
        r = rng.random()
        if r < 0.55:
            k = rng.choice(['info', 'publish', 'publish', 'error', 'publish'])
            if k == 'info':
                parts.append(P.msginfo(rand_text(rng, 30), rand_bytes(rng, rng.choice([0, 4, 4, 20]))))
            elif k == 'publish':
                parts.append(P.msgpublish(rand_text(rng, 40), rand_text(rng, 40), rand_bytes(rng, rng.choice([0, 1, 5, 300, 5000]))))
            else:
                parts.append(P.msgerror(rand_text(rng, 60)))
        elif r < 0.7:
            parts.append(rng.choice([P.msgauth(b'1234', 'x', 'y'), P.msgsubscribe('i', 'c'), P.msgunsubscribe('i', 'c')]))
        elif r < 0.85:
            # mutated frames: truncated bodies, bad utf-8, wrong inner lengths
            parts.append(rng.choice([enc(3, b''), enc(3, b'\x05ab'), enc(1, b''), enc(0, b'\xff\xfe'), enc(3, b'\x01\xc3\x01c'),
                                     enc(4, b'\x01a\xff'), enc(1, b'\x09ab'), enc(2, b'\x00'), enc(5, b'')]))
        elif r < 0.9:
            parts.append(struct.pack('!iB', rng.choice(lattice_lengths(3)), rng.choice([0, 1, 2, 3, 4, 5, 6, 9, 255])) + rand_bytes(rng, rng.randint(0, 8)))
        elif r < 0.96:
            # COMPLETE frames at and just above the small per-opcode limits (OP_INFO / OP_AUTH: 281 bytes), and a
            # complete frame with an undefined opcode: the body is there, only the header is illegal
            total = rng.choice([280, 281, 282, 283, 300, 600])
            op = rng.choice([1, 1, 2, 2, 6, 9])
            name = b'n' * rng.choice([0, 5, 255])
            body = bytes([len(name)]) + name
            body = body + rand_bytes(rng, max(0, total - 5 - len(body)))
            parts.append(enc(op, body[:max(0, total - 5)]))
        else:
            parts.append(rand_bytes(rng, rng.randint(1, 20)))
    if want_parts:
        return parts
    return b''.join(parts)


def run_case(res, drv, ident, secret, chunks, script):
    res.evaluations += 1
    insts = [make_aio(ident, secret), make_blk(ident, secret), make_tw(ident, secret)]
    if drv is not None:
        drv.ask('p.reset %s %s' % (hexin(ident.encode()), hexin(secret.encode())))
    for k, ch in enumerate(chunks):
        outs = [feed(i, f, ch) for i, f in insts]
        names = ['asyncio', 'blocking', 'twisted']
        if not (outs[0] == outs[1] == outs[2]):
            a, b = (0, 1) if outs[0] != outs[1] else (1, 2)
            res.violation('C16', 'classes-differ', 'chunk %d: %s and %s protocol classes behave differently:\n  %s: %s\n  %s: %s'
                          % (k, names[a], names[b], names[a], outs[a][:400], names[b], outs[b][:400]), script)
            return
        if drv is not None:
            mo = drv.ask('p.feed ' + hexin(ch))
            want = 'aio %s | blk %s | tw %s' % tuple(outs)
            if mo != want:
                res.disagree('proto3 chunk %d' % k, script, want[:1500], mo[:1500])
                return
        for o in outs[0].split(' ')[0].strip('[]').split(';'):
            if o:
                res.note('obs.' + o.split(':')[0])
        if any(i.dropped for i, _ in insts):
            res.note('ended-by-drop')
            return


def run(tier, seed, drv):
    res = Result('proto3')
    res.model_used = drv is not None
    rng = random.Random('proto3-%s' % seed)
    n = {'quick': 400, 'thorough': 6000}[tier]
    for k in range(n):
        ident = rand_text(rng, rng.choice([5, 5, 255, 0]))
        secret = rand_text(rng, 30)
        parts = gen_stream(rng, tier, want_parts=True)
        stream = b''.join(parts)
        if rng.random() < 0.3:
            # one generated part per read (a frame alone in its chunk), sometimes with the next part's first bytes
            ends, pos = [], 0
            for pt in parts[:-1]:
                pos += len(pt)
                ends.append(pos + (rng.choice([0, 0, 0, 1, 5]) if pos + 5 < len(stream) else 0))
            cuts = sorted(set(e for e in ends if 0 < e < len(stream)))
        else:
            ncut = rng.choice([0, 0, 1, 2, 5, len(stream)])
            cuts = sorted(set(rng.randint(1, len(stream) - 1) for _ in range(min(ncut, max(0, len(stream) - 1))))) if len(stream) > 1 else []
        chunks = cut(stream, cuts)
        script = {'ident': ident, 'secret': secret, 'chunks': [hexin(c) for c in chunks]}
        run_case(res, drv, ident, secret, chunks, script)
        res.nontriv([stream[:60].hex(), cuts[:8]])
        res.sample(script, limit=4)
    # bursts: several hundred complete frames in ONE read (a coalesced read after a stall), alone and with the broker's
    # greeting in front - beyond any per-call batch size; every class hands over every frame
    import struct as _struct

    def _enc(op, body):
        return _struct.pack('!iB', 5 + len(body), op) + body
    for count in ([257, 600] if tier == 'quick' else [257, 513, 1025, 5000]):
        frames = [_enc(3, b'\x01a\x01c' + b'm%d' % i) if i % 7 else _enc(0, b'e%d' % i) for i in range(count)]
        for head in (b'', _enc(1, b'\x02hp\x01\x02\x03\x04')):
            stream = head + b''.join(frames)
            for chunks in ([stream], [stream[:len(stream) // 2 + 3], stream[len(stream) // 2 + 3:]]):
                script = {'ident': 'me', 'secret': 's', 'chunks': [hexin(c) for c in chunks], 'burst': count}
                run_case(res, drv, 'me', 's', chunks, script)
        res.note('burst')
        res.nontriv(['burst', count])
    res.assumptions += [
        'the recording subclasses override the application hooks (on_error/on_publish/connection_ready/protocol_error) and otherwise call the real implementation',
        'the client ident is at most 255 UTF-8 bytes (struct.pack would raise otherwise)',
        'OP_ERROR / protocol_error texts are not compared between model and implementation (they are compared between the three classes via the same recording)',
    ]
    return res


def replay(script, drv):
    from engines.broker import hx
    res = Result('proto3')
    run_case(res, drv, script['ident'], script['secret'], [hx(c) for c in script['chunks']], script)
    return res
