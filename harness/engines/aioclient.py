"""aioclient engine (C11, C12, C13): hpfeeds.asyncio.ClientSession on the virtual-time loop with a scripted
network (create_connection is replaced on the loop: each attempt is accepted or refused by the script) versus
the Lean AioClient model.  Observations: connection attempts, bytes written per connection, transport.close()
calls, values handed to read(), completion of close()."""
import asyncio
import hashlib
import json
import random
import struct

import compat  # noqa: F401
from engines import Result
from engines.broker import hx, enc, p8
from lean_driver import hexf, hexin
from vloop import VirtualLoop

import hpfeeds.protocol as P
import hpfeeds.asyncio.client as AC

compat.check_repo_origin(AC)


class FakeSock(object):
    def setsockopt(self, *a):
        pass


class Transport(object):
    def __init__(self, eng, k):
        self.eng, self.k = eng, k
        self.closing = False
        self.gone = False

    def get_extra_info(self, name, default=None):
        if name == 'socket':
            return FakeSock()
        if name == 'peername':
            return ('127.0.0.1', 10000)
        return default

    def write(self, data):
        if self.gone:
            return          # asyncio drops writes after connection_lost
        self.eng.out.append('W%d:%s' % (self.k, hexf(bytes(data))))

    def close(self):
        if not self.closing and not self.gone:
            self.closing = True
            self.eng.out.append('X%d' % self.k)

    def is_closing(self):
        return self.closing


class Impl(object):
    def __init__(self, ident, secret):
        self.loop = VirtualLoop()
        asyncio.set_event_loop(self.loop)
        self.out = []
        self.attempts = []      # futures of attempts in flight: (future, factory)
        self.nconn = 0
        self.tr = None
        self.proto = None
        self.readers = []
        self.close_task = None
        self.close_done = False
        self.crashed = False
        loop = self.loop
        eng = self

        async def create_connection(factory, host, port, ssl=None, **kw):
            eng.out.append('T')
            fut = loop.create_future()
            eng.attempts.append((fut, factory))
            return await fut

        loop.create_connection = create_connection
        self.session = AC.ClientSession('broker.example', 10000, ident, secret)

    def close(self):
        try:
            for t in asyncio.all_tasks(self.loop):
                t.cancel()
            self.loop.run_idle()
        except Exception:
            pass
        self.loop.close()
        asyncio.set_event_loop(None)

    def _poll(self):
        for r in list(self.readers):
            if r.done():
                self.readers.remove(r)
                try:
                    i, c, p = r.result()
                    self.out.append('H:%s:%s:%s' % (hexf(i.encode()), hexf(c.encode()), hexf(p)))
                except BaseException as e:
                    self.out.append('Hexc:' + type(e).__name__)
        if self.close_task is not None and self.close_task.done() and not self.close_done:
            self.close_done = True
            exc = None if self.close_task.cancelled() else self.close_task.exception()
            self.out.append('closeDone' if exc is None else 'closeRaised:' + type(exc).__name__)

    def event(self, ev):
        """returns the observations produced by this event"""
        self.out = []
        nexc = len(self.loop.exceptions)
        k = ev[0]
        try:
            if k == 'idle':
                pass
            elif k in ('sub', 'unsub', 'pub', 'read', 'close'):
                # an application call that raises is an observation, not harness trouble
                try:
                    if k == 'sub':
                        self.session.subscribe(hx(ev[1]).decode())
                    elif k == 'unsub':
                        self.session.unsubscribe(hx(ev[1]).decode())
                    elif k == 'pub':
                        self.session.publish(hx(ev[1]).decode(), hx(ev[2]))
                    elif k == 'read':
                        # read(), or one step of `async for msg in session` (only issued while close() has not been
                        # called: then __anext__ is read())
                        if len(ev) > 1 and ev[1] == 'next':
                            self.readers.append(asyncio.ensure_future(self.session.__aiter__().__anext__()))
                        else:
                            self.readers.append(asyncio.ensure_future(self.session.read()))
                    elif self.close_task is None:
                        self.close_task = asyncio.ensure_future(self.session.close())
                except Exception as e:
                    self.out.append('raised:%s:%s' % (k, type(e).__name__))
            elif k == 'accept':
                fut, factory = self.attempts.pop(0)
                self.nconn += 1
                self.tr = Transport(self, self.nconn)
                self.proto = factory()
                self.proto.connection_made(self.tr)
                if not fut.done():
                    fut.set_result((self.tr, self.proto))
            elif k == 'refuse':
                fut, factory = self.attempts.pop(0)
                if not fut.done():
                    # the ways create_connection fails: refused; every address of several refused (a plain OSError);
                    # a connect timeout; a name that does not resolve; network unreachable
                    how = ev[1] if len(ev) > 1 else 'refused'
                    import socket as _socket
                    exc = {'refused': ConnectionRefusedError('refused'),
                           'multi': OSError('Multiple exceptions: [Errno 111] Connect call failed, [Errno 111] Connect call failed'),
                           'timeout': TimeoutError('timed out'),
                           'dns': _socket.gaierror(-2, 'Name or service not known'),
                           'unreach': OSError(101, 'Network is unreachable')}[how]
                    fut.set_exception(exc)
            elif k == 'data':
                try:
                    self.proto.data_received(hx(ev[1]))
                except Exception as e:
                    self.out.append('crash:' + type(e).__name__)
                    self.tr.closing = True
            elif k == 'lost':
                self.tr.closing = True
                self.tr.gone = True
                try:
                    self.proto.connection_lost(None)
                except Exception as e:
                    self.out.append('lostRaised:' + type(e).__name__)
                self.tr_done = True
            elif k == 'advance':
                self.loop.advance(ev[1])
            else:
                raise ValueError(ev)
            self.loop.run_idle()
        finally:
            pass
        for ctx in self.loop.exceptions[nexc:]:
            self.out.append('logged:' + type(ctx.get('exception')).__name__)
        self._poll()
        return list(self.out)

    def state(self):
        return {'attempts': len(self.attempts), 'open': self.tr is not None and not self.tr.gone, 'closing_tr': bool(self.tr and self.tr.closing),
                'close_called': self.close_task is not None, 'close_done': self.close_done}


# ------------------------------------------------------------------------------------- generator / comparison
# C13 names no retry delay: the monitor accepts any delay up to this bound (the code's 1 s is pinned by the model, not by
# the monitor, so a different back-off breaks the correspondence only); scripts end with a probe of this length
RECONNECT_BOUND_MS = 120000

CHANS = [b'c1', b'c2', b'c', b'\xc3\xa9', b'', b'c1x']


def canon(outs):
    """canonical observation line: crash kinds dropped; the set-ordered block of SUBSCRIBE frames that follows
    an AUTH write is sorted"""
    res = []
    for o in outs:
        if o.startswith('crash:'):
            o = 'crash'
        res.append(o)
    i = 0
    while i < len(res):
        if res[i].startswith('W') and ':' in res[i]:
            body = res[i].split(':', 1)[1]
            if len(body) >= 10 and body[8:10] == '02':
                j = i + 1
                while j < len(res) and res[j].startswith('W') and res[j].split(':', 1)[1][8:10] == '04':
                    j += 1
                res[i + 1:j] = sorted(res[i + 1:j], key=lambda w: bytes.fromhex(w.split(':', 1)[1])[5:])
                i = j
                continue
        i += 1
    # read() completions are observed after the loop went idle: hand-overs last, in their own order
    res = [o for o in res if not o.startswith('H:')] + [o for o in res if o.startswith('H:')]
    return ';'.join(res)


def info_frame(rng):
    return enc(P.OP_INFO, p8(rng.choice([b'hp', b'', b'broker-\xc3\xa9'])) + bytes(rng.getrandbits(8) for _ in range(rng.choice([4, 4, 4, 0, 20]))))


def server_bytes(rng, expect_info, legal=False):
    out = b''
    if legal:
        # what a broker can send: one OP_INFO (name, 4-byte nonce) first, then OP_PUBLISH frames
        if expect_info:
            out += enc(P.OP_INFO, p8(rng.choice([b'hp', b'', b'broker-\xc3\xa9'])) + bytes(rng.getrandbits(8) for _ in range(4)))
        for _ in range(rng.choice([0, 1, 1, 2, 4])):
            out += enc(P.OP_PUBLISH, p8(rng.choice([b'alice', b'', b'\xc3\xa9'])) + p8(rng.choice(CHANS)) + bytes(rng.getrandbits(8) for _ in range(rng.choice([0, 1, 5, 300, 70000]))))
        return out
    if expect_info and rng.random() < 0.9:
        out += info_frame(rng)
    for _ in range(rng.choice([0, 1, 1, 2, 4])):
        r = rng.random()
        if r < 0.75:
            out += enc(P.OP_PUBLISH, p8(rng.choice([b'alice', b'', b'\xc3\xa9'])) + p8(rng.choice(CHANS)) + bytes(rng.getrandbits(8) for _ in range(rng.choice([0, 1, 5, 300]))))
        elif r < 0.8:
            out += enc(P.OP_ERROR, b'some error')
        elif r < 0.85:
            out += info_frame(rng)
        elif r < 0.9:
            out += rng.choice([enc(P.OP_AUTH, p8(b'x') + b'd' * 20), enc(P.OP_SUBSCRIBE, p8(b'x') + b'c'), enc(P.OP_UNSUBSCRIBE, p8(b'x') + b'c')])
        elif r < 0.95:
            out += rng.choice([enc(3, b''), enc(3, b'\x05ab'), struct.pack('!iB', 3, 3), struct.pack('!iB', 100, 9), enc(1, b'')])
        else:
            out += bytes(rng.getrandbits(8) for _ in range(rng.randint(1, 9)))
    return out


def gen_and_run(rng, tier, ident, secret, profile):
    """online generation against the implementation; returns (events, impl_lines, impl)"""
    impl = Impl(ident, secret)
    events, lines = [], []
    tails = b''
    got_info = False

    def do(ev):
        events.append(ev)
        lines.append(canon(impl.event(ev)))

    try:
        if rng.random() < 0.85:
            do(['idle'])
        n = rng.randint(6, 30 if tier == 'quick' else 60)
        for _ in range(n):
            st = impl.state()
            impl.attempts = [(f, fa) for f, fa in impl.attempts if not f.done()]
            r = rng.random()
            live = impl.tr is not None and not impl.tr.gone
            can_data = live and not impl.tr.closing
            if impl.attempts and r < 0.35:
                do(['accept'] if rng.random() < (0.75 if profile != 'faults' else 0.45) else rng.choice([['refuse'], ['refuse'], ['refuse', 'multi'], ['refuse', 'timeout'], ['refuse', 'dns'], ['refuse', 'unreach']]))
                got_info = False
                tails = b''
                continue
            if can_data and r < 0.6:
                data = tails or server_bytes(rng, not got_info, legal=(profile != 'faults'))
                got_info = True
                tails = b''
                if len(data) > 1 and rng.random() < 0.3:
                    k = rng.randint(1, len(data) - 1)
                    data, tails = data[:k], data[k:]
                if data:
                    do(['data', hexin(data)])
                continue
            if live and r < (0.72 if profile == 'faults' else 0.66):
                do(['lost'])
                continue
            if r < 0.8:
                k = rng.choice(['sub', 'sub', 'unsub', 'pub', 'read', 'read'])
                if k in ('sub', 'unsub'):
                    do([k, hexin(rng.choice(CHANS))])
                elif k == 'pub':
                    do(['pub', hexin(rng.choice(CHANS)), hexin(bytes(rng.getrandbits(8) for _ in range(rng.choice([0, 3, 200]))))])
                else:
                    do(['read', 'next'] if (impl.close_task is None and rng.random() < 0.5) else ['read'])
                continue
            if r < 0.9:
                do(['advance', rng.choice([1, 500, 999, 1000, 1001, 3000])])
                continue
            if r < (0.97 if profile == 'close' else 0.93) and impl.close_task is None:
                do(['close'])
                continue
            do(['idle'])
        if profile == 'normal':
            for _ in range(rng.choice([0, 2, 6])):
                do(['read', 'next'] if (impl.close_task is None and rng.random() < 0.5) else ['read'])
        if profile == 'close' and impl.close_task is None:
            do(['close'])
        # bounded completion of close: deliver the loss of whatever the client closed, let time pass
        if impl.close_task is not None:
            if impl.tr is not None and not impl.tr.gone:
                do(['lost'])
            do(['advance', 5000])
        else:
            # liveness probe: if the session is waiting to reconnect, give it ample virtual time
            impl.attempts = [(f, fa) for f, fa in impl.attempts if not f.done()]
            if not impl.attempts and (impl.tr is None or impl.tr.gone):
                do(['advance', RECONNECT_BOUND_MS])
    except Exception:
        impl.close()
        raise
    return events, lines, impl


def sweep_scripts(make_impl, canon_fn, twisted, double=False):
    """C13's quantifier, systematically: one base conversation (subscribe while disconnected, OP_INFO split in
    two, messages - one split mid-frame -, reads, further subscribe/unsubscribe/publish) with a FAULT injected
    before every step: the connection is dropped, the next attempt is refused, or the application closes.
    After a fault the conversation goes on as a broker that is reachable again would make it (retry delay, accept,
    fresh OP_INFO).  Yields (events, lines) of each run; `double` injects two faults."""
    nonce = [0]

    def info():
        nonce[0] += 1
        return enc(P.OP_INFO, p8(b'hp') + bytes([nonce[0] & 255, 7, 7, 7]))

    def pub(i, c, p):
        return enc(P.OP_PUBLISH, p8(i) + p8(c) + p)
    m2 = pub(b'bob', b'c2', b'second message')
    base = [('app', ['sub', hexin(b'c1')]), ('net', 'info-a'), ('net', 'info-b'), ('net', pub(b'alice', b'c1', b'm1')),
            ('app', ['read']), ('app', ['sub', hexin(b'c2')]), ('net', m2[:9]), ('net', m2[9:]), ('app', ['read', 'next']),
            ('app', ['unsub', hexin(b'c1')]), ('app', ['pub', hexin(b'c2'), hexin(b'xyz')]), ('net', pub(b'alice', b'c2', b'm3')),
            ('app', ['read'])]
    faults = ['lost', 'refuse', 'close']
    points = [(i, f) for i in range(len(base) + 1) for f in faults]
    plans = [[pt] for pt in points]
    if double:
        plans += [[a, b] for a in points for b in points if a[0] < b[0] and 'close' not in (a[1],)][::7]
    for plan in plans:
        impl = make_impl()
        events, lines = [], []
        st = {'closed': False, 'refuse_next': 0, 'info': None}

        def do(ev):
            events.append(ev)
            lines.append(canon_fn(impl.event(ev)))

        def live():
            return impl.tr is not None and not impl.tr.gone and not impl.tr.closing

        def pending():
            impl.attempts = [(f, fa) for f, fa in impl.attempts if not (f.done() if hasattr(f, 'done') else f.called)]
            return bool(impl.attempts)

        def ensure_connected():
            for _ in range(8):
                if st['closed'] or live():
                    return
                if pending():
                    if st['refuse_next']:
                        st['refuse_next'] -= 1
                        do(['refuse'] if twisted else [['refuse'], ['refuse', 'multi'], ['refuse', 'timeout'], ['refuse', 'dns']][len(events) % 4])
                    else:
                        do(['accept'])
                        st['info'] = info()
                elif impl.tr is not None and not impl.tr.gone:
                    do(['lost'])        # the client closed it (protocol error): report the loss
                else:
                    do(['advance', 1000])
        try:
            do(['start'] if twisted else ['idle'])
            for i in range(len(base) + 1):
                for (pi, f) in plan:
                    if pi != i or st['closed']:
                        continue
                    if f == 'lost':
                        if impl.tr is not None and not impl.tr.gone:
                            do(['lost'])
                    elif f == 'refuse':
                        st['refuse_next'] += 1
                        if impl.tr is not None and not impl.tr.gone:
                            do(['lost'])
                    else:
                        do(['close'])
                        st['closed'] = True
                if i == len(base):
                    break
                kind, what = base[i]
                if kind == 'app':
                    if what == ['read', 'next'] and (st['closed'] or twisted):
                        what = ['read']         # after close() __anext__ ends the iteration instead of reading
                    do(what)
                    continue
                if st['closed']:
                    continue
                ensure_connected()
                if not live():
                    continue
                if what in ('info-a', 'info-b'):
                    if st['info'] is None:
                        continue
                    part = st['info'][:6] if what == 'info-a' else st['info'][6:]
                    if what == 'info-b':
                        st['info'] = None
                    do(['data', hexin(part)])
                else:
                    if st['info'] is not None:      # a fresh connection: the broker sends OP_INFO first
                        do(['data', hexin(st['info'])])
                        st['info'] = None
                    do(['data', hexin(what)])
            if st['closed']:
                if impl.tr is not None and not impl.tr.gone:
                    do(['lost'])
                do(['advance', 5000])
            elif not pending() and (impl.tr is None or impl.tr.gone):
                do(['advance', RECONNECT_BOUND_MS])
        finally:
            impl.close()
        yield plan, events, lines


def expected_messages(conns):
    """the (ident, chan, payload) triples owed to the application, in order, for the inbound bytes so far"""
    from engines.codec import parse_frames
    expected_msgs = []
    for kk in sorted(conns):
        frames, _ = parse_frames(conns[kk]['inbound'])
        # only what a broker can send is covered: one OP_INFO first, then OP_PUBLISH frames, an OP_ERROR ends the
        # connection; the expectation stops at the first frame outside that (second INFO, broker-only opcodes)
        ninfo = 0
        for op, body in frames:
            if op == P.OP_INFO:
                ninfo += 1
                if ninfo > 1 or len(body) == 0:
                    break
                continue
            if op in (P.OP_AUTH, P.OP_SUBSCRIBE, P.OP_UNSUBSCRIBE):
                break
            if op == P.OP_PUBLISH:
                try:
                    n = body[0]; i = body[1:1 + n]; rest = body[1 + n:]; m = rest[0]; c = rest[1:1 + m]; p = rest[1 + m:]
                    i.decode(); c.decode()
                    expected_msgs.append('%s:%s:%s' % (hexf(i), hexf(c), hexf(p)))
                except Exception:
                    break
            else:
                break
    return expected_msgs


def monitors(res, cfg, events, lines, script):
    """C11 / C12 / C13 on the implementation trace (independent of the Lean model)"""
    ident, secret = cfg
    wanted = set()
    conns = {}      # k -> dict(inbound, writes)
    cur = 0
    attempts_after_close = 0
    closed = False
    close_done = False
    expected_msgs, handed = [], []
    pending_attempt = False
    now = 0
    due = None          # C13 (i): virtual time by which the next connection attempt must have been made
    in_flight = 0
    live = False
    no_reconnect = None
    loss_delay = 1000 if script.get('client') == 'twisted' else 0
    app_raised = None
    reads_issued = 0
    owed_now = 0
    withheld = None
    closed_transports, still_open, written_after_close = set(), None, None
    for idx, (ev, line) in enumerate(zip(events, lines)):
        outs = [o for o in line.split(';') if o]
        k = ev[0]
        if k == 'advance':
            now += int(ev[1])
        elif k == 'refuse' and in_flight and not closed:
            in_flight -= 1
            due = now + RECONNECT_BOUND_MS
        elif k == 'accept' and in_flight:
            in_flight -= 1
            live = True
        elif k == 'lost' and live:
            live = False
            if not closed:
                due = now + RECONNECT_BOUND_MS
        elif k == 'close':
            due = None
        if 'T' in outs:
            in_flight += outs.count('T')
            due = None
        if due is not None and now >= due and no_reconnect is None:
            no_reconnect = (k, now)
        if k == 'sub':
            wanted.add(hx(ev[1]))
        elif k == 'unsub':
            wanted.discard(hx(ev[1]))
        elif k == 'accept':
            cur += 1
            conns[cur] = {'inbound': b'', 'writes': [], 'wanted_at_ready': None, 'frames_done': 0}
        elif k == 'data':
            c = conns[cur]
            c['inbound'] += hx(ev[1])
            if script.get('legal'):
                owed_now = len(expected_messages(conns))
        elif k == 'close':
            closed = True
        for o in outs:
            if o.startswith('raised:') and app_raised is None:
                app_raised = (k, o.split(':')[2])
            if o == 'T' and closed and k != 'close':
                attempts_after_close += 1
            if o == 'closeDone':
                close_done = True
                # "closing ends it": when close() / stopService() has completed, a connection that is still up must
                # have been closed by the session (the transport reports the loss afterwards)
                if live and cur and cur not in closed_transports and still_open is None:
                    still_open = (idx, cur)
            if o.startswith('X'):
                closed_transports.add(int(o[1:]))
            if o.startswith('W') and close_done and written_after_close is None:
                written_after_close = (idx, k, int(o[1:o.index(':')]))
            if o.startswith('H:'):
                handed.append(o[2:])
            if o.startswith('W'):
                kk = int(o[1:o.index(':')])
                conns[kk]['writes'].append((bytes.fromhex(o.split(':', 1)[1]) if not o.split(':', 1)[1].startswith('#') else o, set(wanted), k))
        if k == 'read' and not any(o.startswith('raised:') for o in outs):
            reads_issued += 1
        # C12, every message is HANDED: at each quiescent point, a read() the application has issued is still
        # waiting only when every message received so far has been handed over
        if script.get('legal') and withheld is None and len(handed) < min(reads_issued, owed_now):
            withheld = (idx, k, len(handed), reads_issued, owed_now)
    # C12: handed == PUBLISH frames of the inbound streams, in order (up to what was read)
    from engines.codec import parse_frames
    expected_msgs = expected_messages(conns)
    if script.get('legal') and handed != expected_msgs[:len(handed)]:
        res.violation('C12', 'handed-sequence', 'asyncio session: values handed to read() %r are not a prefix of the PUBLISH frames received %r' % (handed[:4], expected_msgs[:4]), script, )
    # C11: per connection, writes are empty before a complete INFO, then AUTH(nonce) + SUBSCRIBE for the wanted set
    for kk, c in conns.items():
        frames, _ = parse_frames(c['inbound'])
        info = next(((op, body) for op, body in frames if op == P.OP_INFO), None)
        ws = c['writes']
        if info is None or not info[1]:
            if ws and info is None:
                res.violation('C11', 'write-before-info', 'asyncio session wrote %d frame(s) on connection %d before any OP_INFO arrived' % (len(ws), kk), script)
            continue
        if not ws:
            # the connection may have been dropped before INFO was processed (an earlier bad frame); but when the
            # very first frame the broker sent on it is a well-formed OP_INFO, the client must have answered
            try:
                first_ok = frames[0][0] == P.OP_INFO and bool(frames[0][1][1:1 + frames[0][1][0]].decode() or True)
            except Exception:
                first_ok = False
            if first_ok:
                res.violation('C13' if kk > 1 else 'C11', 'no-auth-on-connection',
                              'asyncio session: connection %d received a complete OP_INFO as its first frame and the client never sent OP_AUTH on it%s'
                              % (kk, ' (a re-connection: the session does not come back)' if kk > 1 else ''), script)
            continue
        n = info[1][0]
        rand = info[1][1 + n:]
        want_auth = P.msgauth(rand, ident, secret)
        if ws[0][0] != want_auth:
            res.violation('C11', 'first-frame-auth', 'asyncio session: first frame on connection %d is not the OP_AUTH for that connection\'s nonce' % kk, script)
            continue
        wanted_then = ws[0][1]
        subs = []
        for b, w, evk in ws[1:]:
            if isinstance(b, bytes) and len(b) > 4 and b[4] == P.OP_SUBSCRIBE and evk == 'data':
                subs.append(b)
            else:
                break
        want = sorted(P.msgsubscribe(ident, ch.decode()) for ch in wanted_then)
        if sorted(subs) != want:
            res.violation('C11', 'resubscribe-set', 'asyncio session: after OP_AUTH on connection %d it subscribed to %d channel(s); the application wants %r' % (kk, len(subs), sorted(wanted_then)), script)
    if withheld is not None:
        res.violation('C12', 'message-withheld', 'asyncio session: after event %d (%s) only %d message(s) had been handed to the %d read() call(s) issued although %d complete OP_PUBLISH frame(s) had been received' % withheld, script)
    if app_raised is not None:
        prop = {'read': 'C12', 'close': 'C13'}.get(app_raised[0], 'C11')
        res.violation(prop, 'app-call-raised', 'asyncio session: the application call %s() raised %s' % app_raised, script)
    # C13
    if no_reconnect is not None:
        res.violation('C13', 'no-reconnect', 'asyncio session made no new connection attempt within %d s of virtual time after the previous connection/attempt failed (event %r at t=%d ms)' % ((RECONNECT_BOUND_MS // 1000,) + no_reconnect), script)
    if attempts_after_close:
        res.violation('C13', 'attempt-after-close', 'asyncio session made %d connection attempt(s) after close()' % attempts_after_close, script)
    if still_open is not None:
        res.violation('C13', 'closed-but-connected', '%s session: close() completed (event %d) while connection %d was up and had not been closed by the session: the "closed" session stays connected' % (script.get('client', 'asyncio'), still_open[0], still_open[1]), script)
    if written_after_close is not None:
        res.violation('C13', 'active-after-close', '%s session: after close() had completed it wrote on connection %d (event %d, %s): closing did not end it' % (script.get('client', 'asyncio'), written_after_close[2], written_after_close[0], written_after_close[1]), script)
    if closed and not close_done:
        res.violation('C13', 'close-unbounded', 'asyncio session: close() did not complete although every transport it closed was reported lost and 5 s passed', script, )


def run_case(res, drv, rng, tier, profile):
    ident = rng.choice(['me', 'ident-\u00e9', ''])
    secret = rng.choice(['secret', 's\u00e9cret', ''])
    events, lines, impl = gen_and_run(rng, tier, ident, secret, profile)
    impl.close()
    res.evaluations += 1
    script = {'client': 'asyncio', 'ident': ident, 'secret': secret, 'events': events, 'legal': profile != 'faults'}
    monitors(res, (ident, secret), events, lines, script)
    for l in lines:
        for o in l.split(';'):
            if o:
                res.note('obs.' + (o[0] if o[0] in 'WXHT' else o.split(':')[0]))
    if drv is not None:
        drv.ask(reset_line(ident, secret))
        for idx, (ev, line) in enumerate(zip(events, lines)):
            mo = drv.ask('a.ev ' + ' '.join(str(x) for x in ev))
            status, _, mline = mo.partition(' ')
            if status != 'ok':
                res.disagree('model rejects event %d %r' % (idx, ev[:1]), script, line, mo)
                break
            mline = canon([o for o in mline.split(';') if o])
            if mline != line:
                res.disagree('asyncio session, event %d %r' % (idx, ev[:2]), script, line[:800], mline[:800])
                break
    return script


def run_sweep(res, drv, make_impl, canon_fn, twisted, prefix, client, double=False):
    for plan, events, lines in sweep_scripts(make_impl, canon_fn, twisted, double=double):
        script = {'client': client, 'ident': 'me', 'secret': 'secret', 'events': events, 'legal': True, 'sweep': plan}
        before = len(res.violations)
        monitors(res, ('me', 'secret'), events, lines, script)
        for v in res.violations[before:]:
            if twisted:
                v['what'] = v['what'].replace('asyncio session', 'Twisted service')
            v['engine'] = res.engine
        res.evaluations += 1
        res.note('sweep')
        res.nontriv([json.dumps(events)[:4000]])
        if drv is not None:
            drv.ask(reset_line('me', 'secret') if prefix == 'a' else '%s.reset %s %s' % (prefix, hexin(b'me'), hexin(b'secret')))
            for idx, (ev, line) in enumerate(zip(events, lines)):
                mo = drv.ask('%s.ev ' % prefix + ' '.join(str(x) for x in ev))
                status, _, mline = mo.partition(' ')
                mline = canon_fn([o for o in mline.split(';') if o])
                if status != 'ok' or mline != line:
                    res.disagree('%s, fault sweep %r, event %d %r' % (client, plan, idx, ev[:2]), script, line[:800], mo[:800])
                    break


_DELAYS = None


def measured_delays():
    """the two waits the asyncio session makes before a new attempt - after a refused attempt (`asyncio.sleep(1)`
    today) and after a lost connection (none today) - are constants of the code, not of the property: they are
    MEASURED on the real session in virtual time (to the millisecond) and handed to the model, so that a change
    of the back-off alone does not break the correspondence"""
    global _DELAYS
    if _DELAYS is not None:
        return _DELAYS

    def until_attempt(prefix):
        def fresh():
            impl = Impl('me', 'secret')
            for ev in prefix:
                out = impl.event(ev)
            return impl, out
        impl, out = fresh()
        try:
            if 'T' in out:
                return 0
            total, coarse = 0, None
            for _ in range(2400):               # up to 120 s
                total += 50
                if 'T' in impl.event(['advance', 50]):
                    coarse = total
                    break
        finally:
            impl.close()
        if coarse is None:
            return None
        impl, out = fresh()
        try:
            t = coarse - 50
            if t and 'T' in impl.event(['advance', t]):
                return t
            for _ in range(50):
                t += 1
                if 'T' in impl.event(['advance', 1]):
                    return t
        finally:
            impl.close()
        return coarse
    try:
        retry = until_attempt([['idle'], ['refuse']])
        loss = until_attempt([['idle'], ['accept'], ['lost']])
    except Exception:
        retry, loss = None, None
    _DELAYS = (1000 if retry is None else retry, 0 if loss is None else loss)
    return _DELAYS


def reset_line(ident, secret):
    r, l = measured_delays()
    return 'a.reset %s %s %d %d' % (hexin(ident.encode()), hexin(secret.encode()), r, l)


def outage_script(make_impl, canon_fn, twisted, n):
    """C13 'repeatedly': a long outage - n consecutive refused attempts, each followed by ample virtual time - and
    then a reachable broker.  The client must make a new attempt after every single refusal (however many came
    before) and authenticate + resubscribe on the connection it finally gets."""
    impl = make_impl()
    events, lines = [], []

    def do(ev):
        events.append(ev)
        lines.append(canon_fn(impl.event(ev)))

    def pending():
        impl.attempts = [(f, fa) for f, fa in impl.attempts if not (f.done() if hasattr(f, 'done') else f.called)]
        return bool(impl.attempts)
    try:
        do(['start'] if twisted else ['idle'])
        do(['sub', hexin(b'c1')])
        refused = 0
        while refused < n:
            if pending():
                do(['refuse'])
                refused += 1
            else:
                do(['advance', RECONNECT_BOUND_MS])
                if not pending():
                    break
        if not pending():
            do(['advance', RECONNECT_BOUND_MS])
        if pending():
            do(['accept'])
            do(['data', hexin(enc(P.OP_INFO, p8(b'hp') + b'\x01\x02\x03\x04') + enc(P.OP_PUBLISH, p8(b'alice') + p8(b'c1') + b'after the outage'))])
            do(['read'])
    finally:
        impl.close()
    return events, lines


def backlog_script(make_impl, canon_fn, twisted, n):
    """C12 with a SLOW CONSUMER: n messages arrive (a few per read, several hundred in some reads) while the application
    issues no read(); then it reads them all.  Every message is handed over, once, in order - however long the backlog."""
    impl = make_impl()
    events, lines = [], []

    def do(ev):
        events.append(ev)
        lines.append(canon_fn(impl.event(ev)))
    try:
        do(['start'] if twisted else ['idle'])
        do(['sub', hexin(b'c1')])
        if not impl.attempts:
            do(['advance', 1000])
        do(['accept'])
        do(['data', hexin(enc(P.OP_INFO, p8(b'hp') + b'\x01\x02\x03\x04'))])
        sent, k = 0, 0
        while sent < n:
            m = [1, 3, 40, 257, 600][k % 5]
            m = min(m, n - sent)
            chunk = b''.join(enc(P.OP_PUBLISH, p8(b'alice') + p8(b'c1') + b'm%d' % (sent + i)) for i in range(m))
            do(['data', hexin(chunk)])
            sent += m
            k += 1
        for _ in range(n):
            do(['read'])
        do(['idle'])
    finally:
        impl.close()
    return events, lines


def run_backlog(res, drv, make_impl, canon_fn, twisted, prefix, client, n):
    events, lines = backlog_script(make_impl, canon_fn, twisted, n)
    script = {'client': client, 'ident': 'me', 'secret': 'secret', 'events': events, 'legal': True, 'backlog': n}
    before = len(res.violations)
    monitors(res, ('me', 'secret'), events, lines, script)
    handed = sum(1 for l in lines for o in l.split(';') if o.startswith('H:'))
    if handed != n and not [v for v in res.violations[before:] if v['property'] == 'C12']:
        res.violation('C12', 'backlog-lost', '%s session: %d messages arrived while the application was not reading, it then issued %d read() calls and was handed %d' % (client, n, n, handed), script)
    for v in res.violations[before:]:
        if twisted:
            v['what'] = v['what'].replace('asyncio session', 'Twisted service')
        v['engine'] = res.engine
    res.evaluations += 1
    res.note('backlog')
    res.nontriv(['backlog-%d-%s' % (n, client)])
    if drv is not None:
        drv.ask(reset_line('me', 'secret') if prefix == 'a' else '%s.reset %s %s' % (prefix, hexin(b'me'), hexin(b'secret')))
        for idx, (ev, line) in enumerate(zip(events, lines)):
            mo = drv.ask('%s.ev ' % prefix + ' '.join(str(x) for x in ev))
            status, _, mline = mo.partition(' ')
            mline = canon_fn([o for o in mline.split(';') if o])
            if status != 'ok' or mline != line:
                res.disagree('%s, backlog of %d messages, event %d %r' % (client, n, idx, ev[:2]), script, line[:800], mo[:800])
                break


def run_outage(res, drv, make_impl, canon_fn, twisted, prefix, client, n):
    events, lines = outage_script(make_impl, canon_fn, twisted, n)
    script = {'client': client, 'ident': 'me', 'secret': 'secret', 'events': events, 'legal': True, 'outage': n}
    if twisted:
        script['policy'] = 'default'
    before = len(res.violations)
    monitors(res, ('me', 'secret'), events, lines, script)
    for v in res.violations[before:]:
        if twisted:
            v['what'] = v['what'].replace('asyncio session', 'Twisted service')
        v['engine'] = res.engine
    res.evaluations += 1
    res.note('outage')
    res.nontriv(['outage-%d-%s' % (n, client)])
    if drv is not None:
        drv.ask(reset_line('me', 'secret') if prefix == 'a' else '%s.reset %s %s' % (prefix, hexin(b'me'), hexin(b'secret')))
        for idx, (ev, line) in enumerate(zip(events, lines)):
            mo = drv.ask('%s.ev ' % prefix + ' '.join(str(x) for x in ev))
            status, _, mline = mo.partition(' ')
            mline = canon_fn([o for o in mline.split(';') if o])
            if status != 'ok' or mline != line:
                res.disagree('%s, long outage (%d refusals), event %d %r' % (client, n, idx, ev[:2]), script, line[:800], mo[:800])
                break


def run(tier, seed, drv, prop=None):
    res = Result('aioclient')
    res.model_used = drv is not None
    rng = random.Random('aioclient-%s-%s' % (prop, seed))
    n = {'quick': 150, 'thorough': 2500}[tier]
    profiles = {'C11': ['normal', 'faults'], 'C12': ['normal', 'normal', 'faults'], 'C13': ['faults', 'close', 'close']}.get(prop, ['normal'])
    for k in range(n):
        script = run_case(res, drv, rng, tier, profiles[k % len(profiles)])
        res.nontriv([json.dumps(script['events'])[:4000]])
        res.sample({'events': script['events'][:14]}, limit=3)
    if prop in (None, 'C13', 'C11'):
        run_sweep(res, drv, lambda: Impl('me', 'secret'), canon, False, 'a', 'asyncio', double=(tier == 'thorough'))
    if prop in (None, 'C13'):
        run_outage(res, drv, lambda: Impl('me', 'secret'), canon, False, 'a', 'asyncio', {'quick': 1100, 'thorough': 5000}[tier])
    if prop in (None, 'C12'):
        run_backlog(res, drv, lambda: Impl('me', 'secret'), canon, False, 'a', 'asyncio', {'quick': 1500, 'thorough': 6000}[tier])
    res.assumptions += [
        'asyncio create_connection is replaced by a scripted attempt (accept / refuse); transports are fakes honouring the selector-transport contract; time is virtual',
        'application calls are injected at quiescent points of the session\'s own tasks',
        'the set-ordered block of SUBSCRIBE frames after OP_AUTH is compared as a sorted block',
    ]
    return res


def replay(script, drv):
    res = Result('aioclient')
    impl = Impl(script['ident'], script['secret'])
    lines = []
    events = []
    try:
        for ev in script['events']:
            if ev[0] in ('accept', 'refuse') and not impl.attempts:
                # a pinned history answers "the next connection attempt": how long the session waits before making it is
                # a constant of the code, not of the property (harmless/U2 changes the back-off) - the environment's
                # answer is held back until the attempt is there (at most 130 s of virtual time: beyond that the
                # history cannot be executed, and C13's monitors have spoken before)
                for _ in range(130):
                    events.append(['advance', 1000])
                    lines.append(canon(impl.event(['advance', 1000])))
                    if impl.attempts:
                        break
            events.append(ev)
            lines.append(canon(impl.event(ev)))
    finally:
        impl.close()
    script = dict(script, events=events)
    monitors(res, (script['ident'], script['secret']), script['events'], lines, script)
    if drv is not None:
        drv.ask(reset_line(script['ident'], script['secret']))
        for idx, (ev, line) in enumerate(zip(script['events'], lines)):
            mo = drv.ask('a.ev ' + ' '.join(str(x) for x in ev))
            if canon([o for o in mo.partition(' ')[2].split(';') if o]) != line:
                res.disagree('asyncio session, event %d' % idx, script, line[:800], mo[:800])
                break
    return res
