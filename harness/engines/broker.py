"""broker engine: hpfeeds.broker.server.Server + Connection on fake transports and a virtual-time loop
versus the Lean Broker model; property monitors (C01-C04, C08-C10, C14, C15, C19) on the
implementation trace, driven by a spec-level shadow that is independent of the Lean model.

A script is a JSON object {cfg: {name, mode, rows}, events: [...]}; every byte in it is concrete
(nonces are scripted by patching os.urandom inside hpfeeds.broker.connection), so it replays exactly.
"""
import asyncio
import logging
import hashlib
import json
import random
import signal
import struct
import types

import compat  # noqa: F401
from engines import Result
from lean_driver import hexf, hexin, hexlist
from vloop import VirtualLoop

import hpfeeds.protocol as P
import hpfeeds.broker.connection as BC
import hpfeeds.broker.server as BS
import hpfeeds.broker.prometheus as PROM
from prometheus_client import REGISTRY

compat.check_repo_origin(BC)
compat.check_repo_origin(BS)

GRACE_MS = 60000
logging.getLogger('hpfeeds').setLevel(logging.CRITICAL + 1)
logging.getLogger('asyncio').setLevel(logging.CRITICAL + 1)
HIGH = None  # filled from the first observation


def hx(s):
    if '+' in s:
        return b''.join(hx(p) for p in s.split('+'))
    if s == '-':
        return b''
    if s.startswith('*'):
        n, b = s[1:].split(':')
        return bytes([int(b, 16)]) * int(n)
    return bytes.fromhex(s)


class Timeout(Exception):
    pass


def _alarm(signum, frame):
    raise Timeout()


# ------------------------------------------------------------------------------------- fakes
class FakeTransport(object):
    """The asyncio selector-transport contract (CPython 3.12 selector_events.py) as far as the broker
    uses it.  close() is idempotent and flips is_closing() at once; pause/resume_reading are no-ops on
    a closing transport; write() after close() is still accepted (and, with a non-empty buffer, would
    still be transmitted), so it is recorded."""

    def __init__(self, eng, cid):
        self.eng, self.cid = eng, cid
        self.closing = False
        self.paused = False
        self.gone = False
        self.closing_at = None
        self.log = []          # (ms, kind, payload)

    def _rec(self, kind, payload=None):
        self.log.append((self.eng.loop.ms, kind, payload))

    def get_extra_info(self, name, default=None):
        if name == 'peername':
            if self.__dict__.get('nopeer'):
                return None          # the peer reset before connection_made ran: asyncio has no peer name to give
            return ('127.0.0.1', 40000 + self.cid)
        return default

    def write(self, data):
        if self.__dict__.get('wfault'):
            # injected environment fault: this connection's transport refuses writes (the broker's fan-out has a
            # try/except around every recipient for exactly this)
            self._rec('wfault')
            raise OSError('injected write fault on connection %d' % self.cid)
        self._rec('w', bytes(data))

    def close(self):
        if not self.closing:
            self.closing = True
            self._rec('close')

    def abort(self):
        self.close()

    def is_closing(self):
        return self.closing

    def __setattr__(self, k, v):
        if k == 'closing' and v and not self.__dict__.get('closing') and self.__dict__.get('closing_at') is None and 'eng' in self.__dict__:
            self.__dict__['closing_at'] = self.eng.loop.ms
        object.__setattr__(self, k, v)

    def pause_reading(self):
        if self.closing or self.paused:
            return
        self.paused = True
        self._rec('pauseR')

    def resume_reading(self):
        if self.closing or not self.paused:
            return
        self.paused = False
        self._rec('resumeR')

    def set_write_buffer_limits(self, high=None, low=None):
        self._rec('limits', high)

    def get_write_buffer_size(self):
        # asyncio contract: close() on a transport whose buffer is empty schedules connection_lost at once; a transport
        # that is closing and NOT yet lost at a quiescent point therefore still holds unsent bytes (that is what the
        # closing window of C04 is).  Otherwise the fake transmits at once.
        if self.__dict__.get('closing') and not self.__dict__.get('gone'):
            return max(1, sum(len(p_) for _ms, k_, p_ in self.log if k_ == 'w' and isinstance(p_, (bytes, bytearray))) % 4096)
        return 0


class ManualStore(object):
    """credential store whose answers the script completes (asynchronous mode)"""

    def __init__(self, eng):
        self.eng = eng

    async def start(self):
        return None

    def get_authkey(self, ident):
        fut = self.eng.loop.create_future()
        fut.ident = ident
        self.eng.pending.setdefault(self.eng.current, []).append(fut)
        return fut


class UrandomShim(object):
    def __init__(self, real, eng):
        self.__dict__['_real'] = real
        self.__dict__['_eng'] = eng

    def __getattr__(self, k):
        return getattr(self._real, k)

    def urandom(self, n):
        v = self._eng.next_nonce
        if v is None:
            return self._real.urandom(n)
        self._eng.next_nonce = None
        return v


def parse_one(b):
    """independent single-frame parser for what the broker writes"""
    if len(b) >= 5 and int.from_bytes(b[0:4], 'big') == len(b):
        return b[4], bytes(b[5:])
    return None


# ------------------------------------------------------------------------------------- implementation side
class Impl(object):

    def __init__(self, cfg):
        import os as _os
        self.loop = VirtualLoop()
        asyncio.set_event_loop(self.loop)
        PROM.reset()
        self.cfg = cfg
        self.pending = {}
        self.current = None
        self.next_nonce = None
        # the challenge is scripted by replacing `os` in whichever broker module draws it (connection.py today); a tree
        # that draws it elsewhere simply keeps its own randomness - the nonce is read off the wire anyway
        self._shimmed = []
        for mod in (BC, BS):
            cur = getattr(mod, 'os', None)
            if cur is None:
                continue
            real = cur._real if isinstance(cur, UrandomShim) else cur
            mod.os = UrandomShim(real, self)
            self._shimmed.append((mod, real))
        if cfg['mode'] == 'sync':
            from hpfeeds.broker.auth.memory import Authenticator
            creds = {}
            for ident, r in cfg['rows'].items():
                creds[hx(ident).decode('utf-8')] = {
                    'secret': hx(r['secret']).decode('utf-8'), 'owner': hx(r['owner']).decode('utf-8'),
                    'pubchans': [hx(c).decode('utf-8') for c in r['pubchans']],
                    'subchans': [hx(c).decode('utf-8') for c in r['subchans']]}
            auth = Authenticator(creds)
            self.creds = creds
        else:
            auth = ManualStore(self)
        self.server = BS.Server(auth, name=hx(cfg['name']).decode('utf-8'))
        self.conns = {}
        self.tr = {}
        self.crashes = {}       # cid -> list of exception reprs that escaped a callback of cid
        self.logged = []        # exceptions swallowed by the loop's handler, (cid, repr)
        self.hung = None

    def close(self):
        for mod, real in self._shimmed:
            mod.os = real
        try:
            for t in asyncio.all_tasks(self.loop):
                t.cancel()
            self.loop.run_idle()
        except Exception:
            pass
        self.loop.close()
        asyncio.set_event_loop(None)

    idle = True   # run ready callbacks to quiescence after the current event (False: same loop iteration)

    def _guard(self, cid, fn, *a, forced_close=True):
        """run a protocol callback the way asyncio does"""
        self.current = cid
        nexc = len(self.loop.exceptions)
        signal.signal(signal.SIGALRM, _alarm)
        signal.setitimer(signal.ITIMER_REAL, 20.0)
        try:
            fn(*a)
            if self.idle:
                self.loop.run_idle()
        except Timeout:
            self.hung = cid
            raise
        except Exception as e:
            self.crashes.setdefault(cid, []).append(repr(e))
            t = self.tr[cid]
            t._rec('crash', type(e).__name__)
            if forced_close and not t.closing:
                t.closing = True
        finally:
            signal.setitimer(signal.ITIMER_REAL, 0)
        for ctx in self.loop.exceptions[nexc:]:
            self.logged.append((cid, repr(ctx.get('exception'))))
            self.tr[cid]._rec('crash', type(ctx.get('exception')).__name__)
        self.current = None

    def event(self, ev):
        k = ev[0]
        if k == 'connect':
            cid = ev[1]
            self.next_nonce = hx(ev[2])
            conn = BC.Connection(self.server)
            t = FakeTransport(self, cid)
            self.conns[cid], self.tr[cid] = conn, t
            if len(ev) > 3 and ev[3] == 'nopeer':
                t.nopeer = True
                # an exception in connection_made is logged by the loop; the transport is NOT closed by it
                self._guard(cid, conn.connection_made, t, forced_close=False)
            else:
                self._guard(cid, conn.connection_made, t)
        elif k == 'data':
            self._guard(ev[1], self.conns[ev[1]].data_received, hx(ev[2]))
        elif k == 'wfault':
            self.tr[ev[1]].wfault = True
        elif k == 'setrow':
            # the operator changes the credential store while the broker runs (rotation, revocation, new user)
            ident = hx(ev[1]).decode('utf-8')
            if ev[2] is None:
                self.creds.pop(ident, None)
            else:
                r = ev[2]
                self.creds[ident] = {
                    'secret': hx(r['secret']).decode('utf-8'), 'owner': hx(r['owner']).decode('utf-8'),
                    'pubchans': [hx(c).decode('utf-8') for c in r['pubchans']],
                    'subchans': [hx(c).decode('utf-8') for c in r['subchans']]}
        elif k == 'eof':
            t = self.tr[ev[1]]
            if not t.closing:
                t.closing = True
        elif k == 'lost':
            cid = ev[1]
            t = self.tr[cid]
            t.closing = True
            t.gone = True
            # exceptions from connection_lost go to the loop's handler and close nothing
            self.current = cid
            try:
                self.conns[cid].connection_lost(None)
            except Exception as e:
                self.logged.append((cid, repr(e)))
            self.loop.run_idle()
            self.current = None
        elif k == 'lookup_done':
            cid, i, r = ev[1], ev[2], ev[3]
            fut = self.pending[cid].pop(i)
            self.current = cid
            nexc = len(self.loop.exceptions)
            if fut.done():
                # the broker cancelled (or otherwise settled) the store's future itself: the store's answer has nowhere
                # to go.  Not harness trouble - the event is recorded and the monitors judge what follows
                self.tr[cid]._rec('lookup-already-settled')
            elif r[0] == 'missing':
                fut.set_result(None)
            elif r[0] == 'raised':
                fut.set_exception(RuntimeError('store failure'))
            else:
                row = r[1]
                fut.set_result({'secret': hx(row['secret']).decode(), 'owner': hx(row['owner']).decode(),
                                'pubchans': [hx(c).decode() for c in row['pubchans']],
                                'subchans': [hx(c).decode() for c in row['subchans']]})
            signal.signal(signal.SIGALRM, _alarm)
            signal.setitimer(signal.ITIMER_REAL, 20.0)
            try:
                self.loop.run_idle()
            except Timeout:
                self.hung = cid
                raise
            finally:
                signal.setitimer(signal.ITIMER_REAL, 0)
            for ctx in self.loop.exceptions[nexc:]:
                self.logged.append((cid, repr(ctx.get('exception'))))
                self.tr[cid]._rec('crash', type(ctx.get('exception')).__name__)
            self.current = None
        elif k == 'pause':
            self._guard(ev[1], self.conns[ev[1]].pause_writing, forced_close=False)
        elif k == 'resume':
            self._guard(ev[1], self.conns[ev[1]].resume_writing, forced_close=False)
        elif k == 'fire':
            self.loop.run_idle()
        elif k == 'advance':
            self.loop.advance(ev[1])
        elif k in ('dump', 'nogap'):
            pass
        else:
            raise ValueError(ev)

    # ---- observations
    def out_line(self, cid):
        parts = []
        for ms, kind, payload in self.tr[cid].log:
            if kind == 'wfault':
                continue          # the refused write itself is the environment's doing, not an action of the broker
            if kind == 'w':
                fr = parse_one(payload)
                if fr is None:
                    parts.append('%d:w:raw:%s' % (ms, hexf(payload)))
                else:
                    op, body = fr
                    parts.append('%d:w:%d:%s' % (ms, op, '-' if op == P.OP_ERROR else hexf(body)))
            elif kind == 'limits':
                parts.append('%d:limits:%d' % (ms, payload))
            elif kind == 'crash':
                parts.append('%d:crash' % ms)
            else:
                parts.append('%d:%s' % (ms, kind))
        return 'out ' + ' '.join(parts)

    def dump_line(self, labels, chans):
        s = self.server
        conns = []
        for cid in sorted(self.conns):
            c, t = self.conns[cid], self.tr[cid]
            ak = 'None' if c.ak is None else hexf(c.ak.encode('utf-8'))
            act = ','.join(sorted(hexf(x.encode('utf-8')) for x in c.active_subscriptions))
            reg = (c in s.connections)
            conns.append('%d:ak=%s:closing=%s:gone=%s:reg=%s:paused=%s:pending=%d:buf=%d:active=[%s]' % (
                cid, ak, str(t.closing).lower(), str(t.gone).lower(), str(reg).lower(), str(t.paused).lower(),
                len(self.pending.get(cid, [])), compat.unconsumed(c.unpacker), act))
        rev = {id(c): cid for cid, c in self.conns.items()}
        subs = []
        for ch in chans:
            members = s.subscriptions.get(ch.decode('utf-8'), []) if ch.decode('utf-8') in s.subscriptions else []
            # the registry is compared as a multiset: its container type and order are not observable
            subs.append('%s=[%s]' % (hexf(ch), ','.join(str(x) for x in sorted(rev[id(m)] for m in members))))
        g = []
        for l in labels:
            for ch in chans:
                v = REGISTRY.get_sample_value('hpfeeds_broker_subscriptions',
                                              {'ident': 'None' if l is None else l.decode('utf-8'), 'chan': ch.decode('utf-8')})
                if v:
                    g.append('%s/%s=%d' % ('None' if l is None else hexf(l), hexf(ch), int(v)))
        lost = []
        for l in labels:
            v = REGISTRY.get_sample_value('hpfeeds_broker_connection_lost', {'ident': 'None' if l is None else l.decode('utf-8')})
            if v:
                lost.append('%s=%d' % ('None' if l is None else hexf(l), int(v)))
        return 'dump now=%d gConns=%d cMade=%d conns %s | subs %s | gsubs %s | lost %s' % (
            self.loop.ms, int(REGISTRY.get_sample_value('hpfeeds_broker_client_connections')),
            int(REGISTRY.get_sample_value('hpfeeds_broker_connection_made')),
            ' '.join(conns), ' '.join(subs), ' '.join(g), ' '.join(lost))


# ------------------------------------------------------------------------------------- model side
def wfault_comparable(events):
    """after `wfault c` the faulty connection is only published to, or ends (eof / lost); it had no deadline armed"""
    faulty, armed = set(), set()
    for ev in events:
        k = ev[0]
        if k == 'pause':
            armed.add(ev[1])
        elif k == 'resume':
            armed.discard(ev[1])
        if k == 'wfault':
            if ev[1] in armed:
                return False
            faulty.add(ev[1])
        elif k in ('data', 'pause', 'resume', 'fire', 'lookup_done', 'connect') and ev[1] in faulty:
            return False
    return True


def model_lines(script, labels, chans):
    cfg = script['cfg']
    lines = ['b.reset', 'b.cfg %s %s' % (cfg['name'], cfg['mode'])]
    for ident, r in cfg['rows'].items():
        lines.append('b.row %s %s %s %s %s' % (ident, r['secret'], r['owner'], ','.join(r['pubchans']) or '.', ','.join(r['subchans']) or '.'))
    kinds = []
    for ev in script['events']:
        k = ev[0]
        if k == 'nogap':
            kinds.append('skip')
            continue
        if k == 'dump':
            lines.append('b.dump %s %s' % (','.join('None' if l is None else hexin(l) for l in labels) or '.', hexlist(chans)))
            kinds.append('dump')
        elif k == 'setrow':
            if ev[2] is None:
                lines.append('b.delrow %s' % ev[1])
            else:
                r = ev[2]
                lines.append('b.setrow %s %s %s %s %s' % (ev[1], r['secret'], r['owner'], ','.join(r['pubchans']) or '.', ','.join(r['subchans']) or '.'))
            kinds.append('ev')
        elif k == 'lookup_done':
            r = ev[3]
            if r[0] == 'row':
                row = r[1]
                rs = 'row %s %s %s %s' % (row['secret'], row['owner'], ','.join(row['pubchans']) or '.', ','.join(row['subchans']) or '.')
            else:
                rs = r[0]
            lines.append('b.ev lookup_done %d %d %s' % (ev[1], ev[2], rs))
            kinds.append('ev')
        else:
            lines.append('b.ev ' + ' '.join(str(x) for x in ev))
            kinds.append('ev')
    return lines, kinds


GHOST = ('peerClosed', 'pausedW', 'resumedW', 'fired')


def strip_ghost(line):
    toks = line.split(' ')
    return ' '.join(t for t in toks if t.split(':', 1)[-1] not in GHOST)


# ------------------------------------------------------------------------------------- shadow (spec oracle)
class SConn(object):
    def __init__(self, nonce):
        self.nonce = nonce
        self.ident = None
        self.pub, self.sub = [], []
        self.wants = set()
        self.clean = True        # no offence so far; the broker has no reason to drop it
        self.open = True         # transport not closing
        self.gone = False
        self.stream = bytearray()
        self.parked = False      # asynchronous look-up in flight: frames wait
        self.lookups = []        # (ident, digest) in flight
        self.history = []        # (chan, 'S'|'U') processed
        self.deadline = None
        self.expect_close = None  # None | 'error' | 'plain' | 'deadline'
        self.seen_pubs = 0


class Shadow(object):
    """Spec-level oracle.  Processes each connection's byte stream frame by frame while the connection
    is 'clean'; from the first offence on, that connection must receive nothing more and what it sends
    is only checked for safety (deliveries it causes are allowed when legitimate, never required)."""

    def __init__(self, cfg):
        self.cfg = cfg
        self.name = hx(cfg['name'])
        self.rows = {hx(k): {kk: (hx(v) if isinstance(v, str) else [hx(c) for c in v]) for kk, v in r.items()}
                     for k, r in cfg['rows'].items()}
        self.conns = {}
        self.flags = set()

    @staticmethod
    def limit(op):
        return P.SIZES.get(op, P.MAXBUF)

    def pop_frame(self, c):
        """returns ('frame', op, body) | ('wait',) | ('bad',)"""
        s = c.stream
        if len(s) < 5:
            return ('wait',)
        ml = int.from_bytes(s[0:4], 'big', signed=True)
        op = s[4]
        if op > 5 or ml > self.limit(op) or ml < 5:
            return ('bad',)
        if len(s) < ml:
            return ('wait',)
        body = bytes(s[5:ml])
        del s[:ml]
        return ('frame', op, body)

    @staticmethod
    def unpack8(b):
        if not b:
            raise ValueError('empty')
        n = b[0]
        f = b[1:1 + n]
        f.decode('utf-8')
        return f, b[1 + n:]

    def verdict(self, c, ident, digest, row):
        return row is not None and hashlib.sha1(c.nonce + row['secret']).digest() == digest

    def offence(self, c, kind, exp):
        """exp: dict of expectations for this event"""
        if c.clean:
            c.clean = False
            exp['offence'][c.cid] = kind      # 'error' (ERROR + close) | 'plain' (disconnect)
        self.flags.add('offence-' + kind)

    def process(self, cid, exp):
        """consume complete frames of cid; fill exp['pubs'][d] = [(frame_bytes, required, meta)]"""
        c = self.conns[cid]
        while not c.parked:
            r = self.pop_frame(c)
            if r[0] == 'wait':
                return
            if r[0] == 'bad':
                self.offence(c, 'plain', exp)
                return           # the decoder stops; the bad header stays buffered
            _, op, body = r
            try:
                if c.ident is None and op != P.OP_AUTH:
                    self.offence(c, 'error', exp)
                    continue
                if op in (P.OP_ERROR, P.OP_INFO):
                    self.offence(c, 'plain', exp)
                    return       # the handler raises: processing of this chunk stops
                if op == P.OP_AUTH:
                    ident, digest = self.unpack8(body)
                    if not c.registered_guess:
                        self.offence(c, 'plain', exp)
                        return
                    if self.cfg['mode'] == 'async':
                        c.lookups.append((ident, digest))
                        c.parked = True
                        self.flags.add('async-auth')
                        return
                    row = self.rows.get(ident)
                    if self.verdict(c, ident, digest, row):
                        self.authed(c, ident, row)
                    else:
                        self.offence(c, 'error', exp)
                elif op == P.OP_PUBLISH:
                    ident, rest = self.unpack8(body)
                    chan, payload = self.unpack8(rest)
                    if ident != c.ident or chan not in c.pub:
                        self.offence(c, 'error', exp)
                        self.flags.add('rejected-publish')
                        continue
                    if not c.registered_guess:
                        self.offence(c, 'plain', exp)
                        return
                    frame = P.msghdr(P.OP_PUBLISH, bytes([len(ident)]) + ident + bytes([len(chan)]) + chan + payload)
                    # what a connection publishes is owed to the others while the broker has no reason to drop it; a
                    # publisher whose own transport has already refused a write is being dropped (as after an offence)
                    required = c.clean and not getattr(c, 'wfault_hit', False)
                    n = 0
                    for did, d in self.conns.items():
                        if chan in d.wants and d.open and d.clean and not d.gone:
                            if getattr(d, 'wfault', False):
                                # its transport refuses the write: nothing arrives, the broker drops it; it stays
                                # subscribed (and counted) until then
                                d.wfault_hit = True
                                continue
                            exp['pubs'].setdefault(did, []).append((frame, required, (cid, chan)))
                            n += 1
                        elif chan in d.wants_lenient and d.open and not d.gone:
                            # closing-window / unclean destination: must get nothing (checked separately)
                            pass
                    # a closing destination is forcibly forgotten by the broker when it would have been written to
                    for did, d in self.conns.items():
                        if (chan in d.wants or chan in d.wants_lenient) and not d.open:
                            d.registered_guess = False
                            d.wants.clear()
                            d.wants_lenient.clear()
                    self.flags.add('accepted-publish')
                    if n:
                        self.flags.add('publish-with-recipients')
                    if n > 1:
                        self.flags.add('publish-fanout>1')
                elif op == P.OP_SUBSCRIBE:
                    ident, rest = self.unpack8(body)
                    rest.decode('utf-8')
                    c.history.append((rest, 'S'))
                    if rest not in c.sub:
                        self.offence(c, 'error', exp)
                        self.flags.add('forbidden-subscribe')
                        if c.registered_guess:
                            c.wants_lenient.add(rest)
                        continue
                    if not c.registered_guess:
                        self.offence(c, 'plain', exp)
                        return
                    if rest in c.wants:
                        self.flags.add('redundant-subscribe')
                    (c.wants if c.clean else c.wants_lenient).add(rest)
                elif op == P.OP_UNSUBSCRIBE:
                    ident, rest = self.unpack8(body)
                    rest.decode('utf-8')
                    c.history.append((rest, 'U'))
                    if not c.registered_guess:
                        self.offence(c, 'plain', exp)
                        return
                    if rest not in c.wants:
                        self.flags.add('noop-unsubscribe')
                    c.wants.discard(rest)
                    c.wants_lenient.discard(rest)
            except (ValueError, UnicodeDecodeError):
                self.offence(c, 'plain', exp)   # malformed frame: just a disconnect
                return

    def authed(self, c, ident, row):
        if c.ident is not None and c.ident != ident:
            self.flags.add('re-auth-other-ident')
        c.ident = ident
        c.pub, c.sub = list(row['pubchans']), list(row['subchans'])
        self.flags.add('auth-ok')

    def event(self, ev, now):
        exp = {'pubs': {}, 'offence': {}, 'info': None, 'deadline_close': []}
        k = ev[0]
        if k == 'connect':
            c = SConn(hx(ev[2]))
            c.cid = ev[1]
            c.wants_lenient = set()
            c.registered_guess = True
            self.conns[ev[1]] = c
            if len(ev) > 3 and ev[3] == 'nopeer':
                c.nopeer = True
                self.flags.add('no-peername')
            else:
                exp['info'] = ev[1]
        elif k == 'data':
            c = self.conns[ev[1]]
            c.stream += hx(ev[2])
            self.process(ev[1], exp)
        elif k == 'wfault':
            # from now on nothing can be delivered to this connection and the broker may drop it; everybody else
            # is owed everything as before
            c = self.conns[ev[1]]
            c.wfault = True
            self.flags.add('write-fault')
        elif k == 'setrow':
            if ev[2] is None:
                self.rows.pop(hx(ev[1]), None)
            else:
                self.rows[hx(ev[1])] = {kk: (hx(v) if isinstance(v, str) else [hx(c) for c in v]) for kk, v in ev[2].items()}
            self.flags.add('store-changed')
        elif k == 'eof':
            c = self.conns[ev[1]]
            c.open = False
            c.clean_eof = True
        elif k == 'lost':
            c = self.conns[ev[1]]
            c.open = False
            c.gone = True
            c.registered_guess = False
            c.wants.clear()
            c.wants_lenient.clear()
        elif k == 'lookup_done':
            c = self.conns[ev[1]]
            if ev[2] >= len(c.lookups):
                # the implementation started a look-up the spec does not foresee (it acted on a frame it
                # should not have); the per-event monitors judge the consequences
                self.flags.add('unforeseen-lookup')
                return exp
            ident, digest = c.lookups.pop(ev[2])
            r = ev[3]
            if c.gone:
                return exp
            if r[0] == 'row':
                row = {'secret': hx(r[1]['secret']), 'pubchans': [hx(x) for x in r[1]['pubchans']],
                       'subchans': [hx(x) for x in r[1]['subchans']]}
                if self.verdict(c, ident, digest, row):
                    self.authed(c, ident, row)
                    self.flags.add('async-verdict-ok')
                    c.parked = bool(c.lookups)
                    self.process(ev[1], exp)
                    return exp
            self.flags.add('async-verdict-fail')
            self.offence(c, 'error', exp)
            # a failed verdict: parked frames are never acted on (the connection is being dropped)
            c.parked = True
        elif k == 'pause':
            self.conns[ev[1]].deadline = now + GRACE_MS
            self.flags.add('stall')
        elif k == 'resume':
            if self.conns[ev[1]].deadline is not None:
                self.flags.add('recovered')
            self.conns[ev[1]].deadline = None
        elif k == 'fire':
            c = self.conns[ev[1]]
            if c.deadline is not None and c.deadline <= now:
                c.deadline = None
                exp['deadline_close'].append(ev[1])
                if c.clean:
                    c.clean = False
                self.flags.add('deadline-drop')
        return exp


# ------------------------------------------------------------------------------------- run one script
def tags_for(shadow, did, meta_src=None, chan=None):
    d = shadow.conns[did]
    tags = {'C01', 'C10'}
    if chan is not None and sum(1 for ch, k in d.history if ch == chan) > 1:
        tags.add('C08')
    if chan is not None and any(k == 'U' for ch, k in d.history if ch == chan):
        tags.add('C08')
    if not d.clean or not d.open:
        tags.add('C04')
    if chan is not None and chan not in d.sub:
        tags.add('C04')
    if any(c.gone or not c.open or not c.clean for c in shadow.conns.values()):
        tags.add('C09')
    if shadow.cfg['mode'] == 'async':
        tags.add('C14')
    if any(c.deadline is not None for c in shadow.conns.values()) or 'stall' in shadow.flags:
        tags.add('C15')
    return tags


def run_script(script, drv, res, want_model=True):
    """execute on the implementation, monitor, then on the model and compare"""
    cfg = script['cfg']
    impl = Impl(cfg)
    shadow = Shadow(cfg)
    labels, chans = set([None]), set()
    for ident, r in cfg['rows'].items():
        labels.add(hx(ident))
        for c in r['pubchans'] + r['subchans']:
            chans.add(hx(c))
    for extra in script.get('chans', []):
        chans.add(hx(extra))
    for extra in script.get('labels', []):
        labels.add(hx(extra))
    labels = sorted(labels, key=lambda x: (x is not None, x))
    chans = sorted(chans)
    impl_obs = []
    viol = []

    c02_flagged = set()

    def V(props, rule, what, key=None):
        viol.append((set(props), rule, what, key))

    try:
        eff_events = []
        for idx, ev in enumerate(script['events']):
            if ev[0] == 'data_if_reading':
                # a hand-written history may ask for bytes to be delivered only IF the transport is reading at that
                # point (a real transport delivers nothing while reading is paused): which it is depends on the tree
                t_ = impl.tr.get(ev[1])
                ev = ['data', ev[1], ev[2]] if (t_ is not None and not t_.paused and not t_.closing and not t_.gone) else ['advance', 0]
            eff_events.append(ev)
            marks = {cid: len(t.log) for cid, t in impl.tr.items()}
            closing_before = {cid: t.closing for cid, t in impl.tr.items()}
            now_before = impl.loop.ms
            nxt = script['events'][idx + 1] if idx + 1 < len(script['events']) else None
            impl.idle = not (nxt is not None and nxt[0] == 'nogap')
            try:
                impl.event(ev)
            except Timeout:
                V({'C10', 'C07'}, 'termination', 'handling event %d %r did not terminate within 20 s' % (idx, ev[:2]), 'termination')
                break
            now = impl.loop.ms
            exp = shadow.event(ev, now)
            if ev[0] == 'dump':
                impl_obs.append(impl.dump_line(labels, chans))
                # an injected write fault is an artificial environment (real asyncio transports do not raise in
                # write()): it exists to test that one recipient's failure stays with that recipient, so after it
                # only the delivery / isolation rules are applied, not the gauge, deadline and OP_ERROR accounting
                if 'write-fault' not in shadow.flags:
                    monitor_dump(impl, shadow, labels, chans, V, idx)
            # C02 on the broker's STATE: a connection that has not presented a valid AUTH (spec oracle) holds no
            # identity and no subscription, and is registered for no channel - whatever else it has sent
            for cid, d in shadow.conns.items():
                if d.ident is None and not d.gone and cid in impl.conns and cid not in c02_flagged:
                    c = impl.conns[cid]
                    if c.ak is not None:
                        c02_flagged.add(cid)
                        V({'C02'}, 'identity-without-auth', 'event %d %r: connection %d holds identity %r although it never presented a valid OP_AUTH for its nonce' % (idx, ev[:2], cid, c.ak), 'identity-without-auth')
                    elif c.active_subscriptions or any(any(m is c for m in members) for members in impl.server.subscriptions.values()):
                        c02_flagged.add(cid)
                        V({'C02'}, 'acted-before-auth', 'event %d %r: connection %d never presented a valid OP_AUTH and the broker has registered a subscription for it (a frame it sent was acted on)' % (idx, ev[:2], cid), 'acted-before-auth')
            # ---- monitors on the delta of this event
            for cid, t in impl.tr.items():
                new = t.log[marks.get(cid, 0):]
                pubs = []
                for ms, kind, payload in new:
                    if kind == 'w':
                        fr = parse_one(payload)
                        if fr and fr[0] == P.OP_PUBLISH:
                            pubs.append(payload)
                expected = exp['pubs'].get(cid, [])
                d = shadow.conns[cid]
                # safety + completeness: actual must contain all required, in order, and nothing unexpected
                i = 0
                for p in pubs:
                    while i < len(expected) and expected[i][0] != p and not expected[i][1]:
                        i += 1
                    if i < len(expected) and expected[i][0] == p:
                        i += 1
                        continue
                    # unexpected delivery
                    fr = parse_one(p)
                    try:
                        ident, rest = Shadow.unpack8(fr[1])
                        chan, _ = Shadow.unpack8(rest)
                    except Exception:
                        ident, chan = None, None
                    tg = tags_for(shadow, cid, chan=chan)
                    tg.add('C03')
                    tg.add('C02')
                    V(tg, 'unexpected-delivery', 'event %d %r: connection %d received an OP_PUBLISH (ident=%r chan=%r) it is not entitled to (subscribed=%s clean=%s open=%s)'
                      % (idx, ev[:2], cid, ident, chan, sorted(d.wants), d.clean, closing_before.get(cid) is False),
                      'delivery-after-unsubscribe' if chan is not None and (chan, 'U') in d.history else None)
                    break
                else:
                    missing = [e for e in expected[i:] if e[1]]
                    if missing:
                        tg = tags_for(shadow, cid, chan=missing[0][2][1])
                        V(tg, 'missing-delivery', 'event %d %r: connection %d did not receive %d message(s) it is entitled to on %r'
                          % (idx, ev[:2], cid, len(missing), missing[0][2][1]))
                # nothing but INFO/ERROR/PUBLISH frames, one frame per write
                for ms, kind, payload in new:
                    if kind == 'w' and parse_one(payload) is None:
                        V({'C01', 'C05'}, 'malformed-write', 'event %d: broker wrote bytes that are not one frame to %d' % (idx, cid))
                # a clean connection is never closed or crashed by somebody else's event
                tgt = ev[1] if len(ev) > 1 and ev[0] not in ('advance', 'dump', 'setrow') else None
                if getattr(d, 'wfault', False):
                    continue        # the broker may drop a connection whose transport refuses writes, at any time
                due_now = ev[0] == 'advance' and d.deadline is not None and d.deadline <= now
                if cid != tgt and (t.closing and not closing_before.get(cid, False)) and not due_now:
                    V({'C10', 'C09', 'C15'}, 'closed-by-other', 'event %d %r closed connection %d' % (idx, ev[:2], cid))
                if cid != tgt and any(kind == 'crash' for ms, kind, payload in new):
                    V({'C10', 'C09'}, 'crash-by-other', 'event %d %r raised in a callback of connection %d' % (idx, ev[:2], cid))
                if cid == tgt and d.clean and ev[0] in ('data', 'lookup_done', 'pause', 'resume') and t.closing and not closing_before.get(cid, False):
                    V({'C10', 'C01', 'C15', 'C14'}, 'clean-connection-dropped', 'event %d %r: the broker dropped well-behaved connection %d' % (idx, ev[:2], cid),
                      'publisher-disconnected-by-stale-subscriber' if any(kind == 'crash' for ms, kind, payload in new) else None)
            # offences must be answered
            for cid, kind in exp['offence'].items():
                t = impl.tr[cid]
                new = t.log[marks.get(cid, 0):]
                got_err = any(k == 'w' and (parse_one(p) or (None,))[0] == P.OP_ERROR for ms, k, p in new)
                if not t.closing:
                    V({'C02', 'C03', 'C04', 'C14'}, 'offender-not-dropped', 'event %d %r: connection %d sent an offending/malformed frame and was not disconnected' % (idx, ev[:2], cid))
                elif kind == 'error' and not got_err and not impl.tr[cid].__dict__.get('wfault'):
                    # (a transport that refuses writes cannot be sent the OP_ERROR)
                    V({'C02', 'C03', 'C04', 'C14'}, 'no-error-frame', 'event %d %r: connection %d was dropped without OP_ERROR' % (idx, ev[:2], cid))
            if exp['info'] is not None:
                cid = exp['info']
                log = impl.tr[cid].log
                want = P.msghdr(P.OP_INFO, bytes([len(shadow.name)]) + shadow.name + shadow.conns[cid].nonce)
                if [p for ms, k, p in log if k == 'w'] != [want] or len(shadow.conns[cid].nonce) != 4:
                    V({'C02'}, 'first-bytes-info', 'connection %d: first bytes are not a single OP_INFO(name, 4-byte nonce)' % cid)
            for cid in exp['deadline_close']:
                t = impl.tr[cid]
                new = t.log[marks.get(cid, 0):]
                # the drop (ERROR then close) must be stamped at the deadline (it fired during the preceding advance)
            # C15: deadline behaviour is checked on the whole log at the end
            # C14: while a look-up is pending reading is paused (or the transport is closing)
            for cid, futs in impl.pending.items():
                t = impl.tr[cid]
                if futs and not (t.paused or t.closing):
                    V({'C14'}, 'reading-while-pending', 'event %d %r: connection %d has a credential look-up in flight but reading is not paused' % (idx, ev[:2], cid), 'resume-while-pending')
        # C15 on whole logs
        if 'write-fault' not in shadow.flags:
            monitor_deadlines(script, impl, V)
        outs = {cid: impl.out_line(cid) for cid in sorted(impl.tr)}
    finally:
        impl.close()
    res.evaluations += 1
    for props, rule, what, key in viol:
        for p in sorted(props):
            res.violations.append({'property': p, 'rule': rule, 'what': what, 'engine': 'broker', 'script': script, 'key': key})
    for f in shadow.flags:
        res.note('reach.' + f)
    res.note('events', len(script['events']))
    res.note('mode.' + cfg['mode'])
    # ---- model (a write fault is outside the model's event vocabulary: such histories are judged by the monitors only)
    if any(e[0] == 'wfault' for e in script['events']):
        # the model covers a write refused INSIDE Server.publish (Model/BrokerFault.lean: the try/except around every
        # recipient).  A faulty transport that the broker writes to on any other path (an OP_ERROR answering the
        # connection's own frames, its deadline task) is outside it: those histories stay with the monitors.
        if wfault_comparable(script['events']):
            res.note('model.write-fault')
        else:
            res.note('monitor-only.write-fault')
            want_model = False
    if any(e[0] == 'connect' and len(e) > 3 for e in script['events']):
        res.note('monitor-only.no-peername')
        want_model = False
    if drv is not None and want_model:
        lines, kinds = model_lines(dict(script, events=eff_events + script['events'][len(eff_events):]), labels, chans)
        ans = drv.ask_many(lines)
        body0 = ans[2 + len(cfg['rows']):]
        it = iter(body0)
        body = [next(it) if k != 'skip' else 'ok' for k in kinds]
        dumps = [a for a, k in zip(body, kinds) if k == 'dump']
        invalid = [i for i, (a, k) in enumerate(zip(body, kinds)) if k == 'ev' and a != 'ok']
        if invalid:
            res.disagree('model rejects event %d %r as %s (generator/contract bug or divergence)' % (invalid[0], script['events'][invalid[0]][:2], body[invalid[0]]),
                         script, 'executed', body[invalid[0]])
        elif dumps != impl_obs:
            k = next((i for i in range(min(len(dumps), len(impl_obs))) if dumps[i] != impl_obs[i]), 0)
            res.disagree('dump %d differs' % k, script, impl_obs[k] if k < len(impl_obs) else None, dumps[k] if k < len(dumps) else None)
        else:
            for cid in sorted(outs):
                mo = strip_ghost(drv.ask('b.out %d' % cid))
                if mo != outs[cid]:
                    res.disagree('action log of connection %d differs' % cid, script, outs[cid][:3000], mo[:3000])
                    break
    return shadow.flags, viol


def monitor_dump(impl, shadow, labels, chans, V, idx):
    """C09 / C19 at a quiescent point (no closing-but-not-lost connection)"""
    s = impl.server
    quiescent = all((not t.closing) or t.gone for t in impl.tr.values())
    open_conns = [cid for cid, t in impl.tr.items() if not t.gone]
    for cid, t in impl.tr.items():
        c = impl.conns[cid]
        if t.gone:
            if c in s.connections:
                V({'C09'}, 'lost-still-connection', 'dump@%d: lost connection %d is still in the connection set' % (idx, cid))
            for ch, members in s.subscriptions.items():
                if any(m is c for m in members):
                    V({'C09', 'C08'}, 'lost-still-subscribed', 'dump@%d: lost connection %d is still registered for %r' % (idx, cid, ch))
    g = REGISTRY.get_sample_value('hpfeeds_broker_client_connections')
    made = REGISTRY.get_sample_value('hpfeeds_broker_connection_made')
    if made != len(impl.tr):
        V({'C19'}, 'made-counter', 'dump@%d: connection_made counter %s != %d connections made' % (idx, made, len(impl.tr)))
    lost_total = 0
    from prometheus_client import REGISTRY as R
    for m in R.collect():
        if m.name == 'hpfeeds_broker_connection_lost':
            lost_total = sum(smp[2] for smp in m.samples)
        if m.name == 'hpfeeds_broker_subscriptions':
            for smp in m.samples:
                if smp[2] < 0:
                    V({'C19'}, 'negative-gauge', 'dump@%d: subscription gauge %r is %s' % (idx, smp[1], smp[2]), 'negative-gauge')
    if quiescent:
        if g != len(open_conns):
            V({'C19', 'C09'}, 'connections-gauge', 'dump@%d (quiescent): client_connections gauge %s != %d open connections' % (idx, g, len(open_conns)))
        if lost_total != len(impl.tr) - len(open_conns):
            V({'C19'}, 'lost-counter', 'dump@%d (quiescent): connection_lost total %s != %d connections gone' % (idx, lost_total, len(impl.tr) - len(open_conns)))
        # per channel: sum over idents == number of open connections subscribed (shadow count)
        for ch in chans:
            total = 0
            for m in R.collect():
                if m.name == 'hpfeeds_broker_subscriptions':
                    total += sum(smp[2] for smp in m.samples if smp[1].get('chan') == ch.decode('utf-8'))
            want = sum(1 for cid in open_conns if ch in shadow.conns[cid].wants and shadow.conns[cid].clean)
            if total != want:
                V({'C19', 'C08', 'C09'}, 'subscription-gauge', 'dump@%d (quiescent): subscriptions gauge for %r sums to %s, %d open connections are subscribed' % (idx, ch, total, want))
        if not open_conns:
            for m in R.collect():
                if m.name in ('hpfeeds_broker_subscriptions', 'hpfeeds_broker_client_connections'):
                    for smp in m.samples:
                        if smp[2] != 0:
                            V({'C19'}, 'not-zero-when-empty', 'dump@%d: every client has gone but %s%r = %s' % (idx, smp[0], smp[1], smp[2]))


def monitor_deadlines(script, impl, V):
    """C15 on the implementation: replay the stall/drain episodes of the script in virtual time"""
    now = 0
    armed = {}
    closed_at = {}
    for cid, t in impl.tr.items():
        for ms, kind, payload in t.log:
            if kind == 'close' and cid not in closed_at:
                closed_at[cid] = ms
    gone_at = {}
    for ev in script['events']:
        if ev[0] == 'advance':
            now += ev[1]
        elif ev[0] == 'pause':
            armed[ev[1]] = now + GRACE_MS
        elif ev[0] == 'resume':
            armed.pop(ev[1], None)
        elif ev[0] == 'lost':
            gone_at.setdefault(ev[1], now)
        elif ev[0] == 'fire':
            cid = ev[1]
            t = armed.pop(cid, None)
            if t is None:
                continue
            log = impl.tr[cid].log
            at = [(ms, kind, payload) for ms, kind, payload in log if ms == t]
            ca = impl.tr[cid].closing_at
            was_closing_before = ca is not None and ca < t
            if cid in gone_at:
                continue
            got_err = any(kind == 'w' and (parse_one(p) or (None,))[0] == P.OP_ERROR for ms, kind, p in at)
            if impl.tr[cid].__dict__.get('wfault'):
                got_err = True      # it cannot be sent the OP_ERROR; it must still be dropped at the deadline
            if not was_closing_before and not (ca == t and got_err):
                V({'C15'}, 'deadline-drop', 'connection %d stalled for the whole grace period (deadline %d ms) but was not sent OP_ERROR and dropped at the deadline (closed at %r)' % (cid, t, closed_at.get(cid)))
    # early drops are caught by clean-connection-dropped / closed-by-other during the run


# ------------------------------------------------------------------------------------- generator
IDENTS = ['alice', 'bob', 'carol', 'Alice', 'ali', '', 'ünï']
CHANS = ['c1', 'c2', 'c3', 'C1', 'c', '', 'c1x', '日本']


def mk_cfg(rng, mode, profile):
    rows = {}
    names = ['alice', 'bob', 'carol'] + (['ünï'] if rng.random() < 0.4 else []) + ([''] if rng.random() < 0.1 else [])
    for n in names:
        if profile in ('fanout', 'subs', 'gauges', 'stall', 'async', 'loss', 'window'):
            pub = ['c1', 'c2', 'c3']
            sub = ['c1', 'c2', 'c3']
        else:
            pub = rng.sample(['c1', 'c2', 'c3', '日本', ''], rng.randint(0, 3))
            sub = rng.sample(['c1', 'c2', 'c3', '日本', ''], rng.randint(0, 3))
        rows[n.encode().hex() or '-'] = {'secret': (n + '-secret').encode().hex(), 'owner': b'o'.hex(),
                                         'pubchans': [c.encode().hex() or '-' for c in pub],
                                         'subchans': [c.encode().hex() or '-' for c in sub]}
    return {'name': rng.choice(['hpfeeds', 'b', '@hp2']).encode().hex(), 'mode': mode, 'rows': rows}


def enc(op, body):
    return struct.pack('!iB', 5 + len(body), op) + body


def p8(b):
    return bytes([len(b)]) + b


class Gen(object):
    """online generator: decides the next event from the observable state of the implementation run"""

    def __init__(self, rng, cfg, profile, tier):
        self.rng, self.cfg, self.profile, self.tier = rng, cfg, profile, tier
        self.rows = {hx(k).decode(): {'secret': hx(r['secret']).decode(), 'pub': [hx(c).decode() for c in r['pubchans']],
                                      'sub': [hx(c).decode() for c in r['subchans']]} for k, r in cfg['rows'].items()}
        self.next_id = 1
        self.nonce = {}
        self.ident = {}     # what the client believes it is
        self.held = {}      # cid -> channels it ever asked for (under any identity it had)
        self.nopeer = set()
        self.sent_info = lambda cid: True
        self.stale = {}     # ident -> secrets the store held for it earlier
        self.revoked = {}   # ident -> row it had when it was removed from the store
        self.tail = {}      # bytes cut off from the previous data event, still to be sent
        self.subs = {}
        self.bigleft = 2 if tier == 'thorough' else 1

    def store_change(self):
        """an operator's edit of the credential store: rotate a secret, revoke or (re)instate an identity,
        change its channel lists"""
        rng = self.rng
        gone = [i for i in self.revoked if i not in self.rows]
        k = rng.choice(['rotate', 'rotate', 'revoke', 'acl', 'reinstate' if gone else 'rotate'])
        if k == 'reinstate':
            ident = rng.choice(gone)
            row = dict(self.revoked[ident])
        else:
            ident = rng.choice(sorted(self.rows))
            row = dict(self.rows[ident])
        self.stale.setdefault(ident, []).append(row['secret'])
        if k == 'rotate':
            row['secret'] = row['secret'] + rng.choice(['2', '-new', 'x'])
        elif k == 'acl':
            row['pub'] = rng.sample(['c1', 'c2', 'c3'], rng.randint(0, 2))
            row['sub'] = rng.sample(['c1', 'c2', 'c3'], rng.randint(0, 2))
        h = ident.encode().hex() or '-'
        if k == 'revoke':
            self.revoked[ident] = self.rows.pop(ident)
            return ['setrow', h, None]
        self.rows[ident] = row
        return ['setrow', h, {'secret': row['secret'].encode().hex(), 'owner': b'o'.hex(),
                              'pubchans': [c.encode().hex() or '-' for c in row['pub']], 'subchans': [c.encode().hex() or '-' for c in row['sub']]}]

    def auth_bytes(self, cid, valid=True):
        rng = self.rng
        if cid in self.nopeer and not self.sent_info(cid):
            # no challenge was sent: the client cannot know the nonce
            ident = rng.choice(list(self.rows) or ['nobody'])
            return enc(P.OP_AUTH, p8(ident.encode()) + hashlib.sha1(bytes(rng.getrandbits(8) for _ in range(4)) + b'guess').digest())
        if not self.rows:
            valid = False
        ident = rng.choice(list(self.rows)) if (self.rows and (valid or rng.random() < 0.5)) else rng.choice(IDENTS + ['nobody'])
        secret = self.rows.get(ident, {}).get('secret', 'x')
        digest = hashlib.sha1(self.nonce[cid] + secret.encode()).digest()
        if not valid and self.stale and rng.random() < 0.5:
            # the secret the store USED to hold for an identity (rotated away or revoked since)
            ident = rng.choice(sorted(self.stale))
            old = rng.choice(self.stale[ident])
            if self.rows.get(ident, {}).get('secret') != old:
                return enc(P.OP_AUTH, p8(ident.encode()) + hashlib.sha1(self.nonce[cid] + old.encode()).digest())
        if not valid and rng.random() < 0.15:
            # an ident that differs from a configured one only by unicode normalisation / case, with the RIGHT secret
            import unicodedata
            cands = []
            for i in self.rows:
                for v in (unicodedata.normalize('NFD', i), unicodedata.normalize('NFC', i), i.upper(), i.title(), i + ' '):
                    if v != i and v not in self.rows and len(v.encode()) < 256:
                        cands.append((v, i))
            if cands:
                v, i = rng.choice(cands)
                return enc(P.OP_AUTH, p8(v.encode()) + hashlib.sha1(self.nonce[cid] + self.rows[i]['secret'].encode()).digest())
        if not valid:
            k = rng.choice(['wrong-secret', 'prefix', 'empty', '19', '21', 'other-nonce', 'other-ident', 'unknown'])
            if k == 'wrong-secret':
                digest = hashlib.sha1(self.nonce[cid] + b'nope').digest()
            elif k == 'prefix':
                digest = digest[:rng.randint(1, 19)]
            elif k == 'empty':
                digest = b''
            elif k == '19':
                digest = digest[:19]
            elif k == '21':
                digest = digest + b'\x00'
            elif k == 'other-nonce':
                other = rng.choice(list(self.nonce.values()))
                digest = hashlib.sha1((other if other != self.nonce[cid] else b'\x00\x00\x00\x00') + secret.encode()).digest()
            elif k == 'other-ident':
                o = rng.choice(list(self.rows)) if self.rows else ident
                if o != ident:
                    digest = hashlib.sha1(self.nonce[cid] + self.rows[o]['secret'].encode()).digest()
                else:
                    digest = b'\x01' * 20
            else:
                ident = 'nobody'
        else:
            self.ident[cid] = ident
        return enc(P.OP_AUTH, p8(ident.encode()) + digest)

    def client_frames(self, cid):
        """bytes a client might send next"""
        rng, prof = self.rng, self.profile
        me = self.ident.get(cid)
        out = b''
        nfr = rng.choice([1, 1, 1, 2, 3])
        for _ in range(nfr):
            r = rng.random()
            bad = {'adversary': 0.35, 'preauth': 0.3, 'spoof': 0.3, 'acl': 0.3, 'window': 0.12, 'reauth': 0.08}.get(prof, 0.06)
            if me is None:
                if r < (0.5 if prof == 'preauth' else 0.12):
                    # something else first
                    out += rng.choice([enc(P.OP_SUBSCRIBE, p8(b'alice') + b'c1'), enc(P.OP_PUBLISH, p8(b'alice') + p8(b'c1') + b'x'),
                                       enc(P.OP_UNSUBSCRIBE, p8(b'alice') + b'c1'), enc(P.OP_INFO, p8(b'x') + b'1234'), enc(P.OP_ERROR, b'e'),
                                       enc(P.OP_AUTH, b''), enc(P.OP_AUTH, b'\x05ab')])
                else:
                    out += self.auth_bytes(cid, valid=rng.random() > (0.5 if prof == 'preauth' else 0.1))
                me = self.ident.get(cid)
                continue
            row = self.rows.get(me) or self.revoked.get(me) or {'secret': 'x', 'pub': [], 'sub': []}
            allc = ['c1', 'c2', 'c3']
            if r < bad:
                k = rng.choice(['spoof', 'forbidden-pub', 'forbidden-sub', 'garbage', 'lattice', 'info', 'error', 'short', 'badutf', 'reauth-bad', 'near-name', 'near-name'])
                if k == 'near-name':
                    # a name that differs from a permitted one (or from the own ident) only by characters a
                    # "sanitiser" might drop or fold: control characters, zero-width space, case, surrounding blanks, a dot
                    def near(x):
                        return rng.choice([x + '\n', x + '\x00', '\t' + x, x[:1] + '\u200b' + x[1:], x + '\x7f', x.upper() if x.upper() != x else x + ' ', ' ' + x, x + '.', x + '\r\n'])
                    which = rng.choice(['pub-chan', 'sub-chan', 'ident'])
                    if which == 'pub-chan' and row['pub']:
                        out += enc(P.OP_PUBLISH, p8(me.encode()) + p8(near(rng.choice(row['pub'])).encode()) + b'near')
                    elif which == 'sub-chan' and row['sub']:
                        out += enc(P.OP_SUBSCRIBE, p8(me.encode()) + near(rng.choice(row['sub'])).encode())
                    elif row['pub'] and len(me.encode()) < 250:
                        out += enc(P.OP_PUBLISH, p8(near(me).encode()) + p8(rng.choice(row['pub']).encode()) + b'near-ident')
                    else:
                        out += enc(P.OP_PUBLISH, p8(me.encode()) + p8(b'zz') + b'forbidden')
                    continue
                if k == 'spoof':
                    other = rng.choice([i for i in IDENTS + list(self.rows) if i != me] or ['x'])
                    out += enc(P.OP_PUBLISH, p8(other.encode()) + p8(rng.choice(row['pub'] or ['c1']).encode()) + b'spoof')
                elif k == 'forbidden-pub':
                    ch = rng.choice([c for c in CHANS if c not in row['pub']] or ['zz'])
                    out += enc(P.OP_PUBLISH, p8(me.encode()) + p8(ch.encode()) + b'forbidden')
                elif k == 'forbidden-sub':
                    ch = rng.choice([c for c in CHANS if c not in row['sub']] or ['zz'])
                    out += enc(P.OP_SUBSCRIBE, p8(me.encode()) + ch.encode())
                elif k == 'garbage':
                    out += bytes(rng.getrandbits(8) for _ in range(rng.randint(1, 12)))
                elif k == 'lattice':
                    out += struct.pack('!iB', rng.choice([-2 ** 31, -1, 0, 1, 4, 2 ** 31 - 1, P.MAXBUF + 6, 282]), rng.choice([0, 1, 2, 3, 4, 5, 6, 255]))
                elif k == 'info':
                    out += enc(P.OP_INFO, p8(b'x') + b'1234')
                elif k == 'error':
                    out += enc(P.OP_ERROR, b'boom')
                elif k == 'short':
                    out += rng.choice([enc(P.OP_PUBLISH, b''), enc(P.OP_PUBLISH, p8(me.encode())), enc(P.OP_SUBSCRIBE, b''), enc(P.OP_PUBLISH, b'\x09ab')])
                elif k == 'badutf':
                    out += rng.choice([enc(P.OP_SUBSCRIBE, p8(me.encode()) + b'\xff\xfe'), enc(P.OP_PUBLISH, p8(b'\xc3') + p8(b'c1') + b'x')])
                else:
                    out += self.auth_bytes(cid, valid=False)
                continue
            wsub = {'subs': 0.6, 'fanout': 0.3, 'gauges': 0.5, 'window': 0.3, 'reauth': 0.45}.get(prof, 0.35)
            if r < bad + wsub:
                ch = rng.choice(row['sub'] or allc)
                if prof in ('window', 'fanout') and 'c1' in row['sub'] and rng.random() < 0.6:
                    ch = 'c1'
                if rng.random() < (0.45 if prof in ('subs', 'gauges', 'reauth') else (0.1 if prof == 'window' else 0.25)):
                    # also channels asked for under an EARLIER identity of this connection (UNSUBSCRIBE has no ACL)
                    if self.held.get(cid) and rng.random() < 0.5:
                        ch = rng.choice(sorted(self.held[cid]))
                    for _ in range(rng.choice([1, 1, 2, 3])):
                        out += enc(P.OP_UNSUBSCRIBE, p8(me.encode()) + ch.encode())
                else:
                    self.held.setdefault(cid, set()).add(ch)
                    for _ in range(rng.choice([1, 1, 1, 2, 3]) if prof in ('subs', 'gauges', 'loss') else 1):
                        out += enc(P.OP_SUBSCRIBE, p8(rng.choice([me, me, 'whoever']).encode()) + ch.encode())
            elif r < bad + wsub + (0.2 if prof == 'reauth' else 0.08 if prof in ('adversary', 'gauges', 'spoof') else 0.04):
                out += self.auth_bytes(cid, valid=True)
                me = self.ident.get(cid)
            else:
                ch = rng.choice(row['pub'] or allc)
                if prof in ('window', 'fanout') and 'c1' in row['pub'] and rng.random() < 0.6:
                    ch = 'c1'
                n = rng.choice([0, 1, 2, 5, 255, 256, 1000])
                if self.bigleft and rng.random() < 0.03:
                    self.bigleft -= 1
                    n = rng.choice([4096, 65536, P.MAXBUF - 2 - len(me.encode()) - len(ch.encode())])
                payload = bytes([rng.getrandbits(8)]) * n if n > 64 else bytes(rng.getrandbits(8) for _ in range(n))
                out += enc(P.OP_PUBLISH, p8(me.encode()) + p8(ch.encode()) + payload)
        return out


def gen_script(rng, tier, profile):
    force_wfault = profile.endswith('+wfault')
    force_nopeer = profile.endswith('+nopeer')
    force_stall = profile.endswith('+stall')     # back-pressure episodes while credential look-ups are in flight
    profile = profile.split('+')[0]
    mode = 'async' if profile == 'async' or (profile in ('adversary', 'loss') and rng.random() < 0.25) else 'sync'
    cfg = mk_cfg(rng, mode, profile)
    g = Gen(rng, cfg, profile, tier)
    impl = Impl(cfg)
    events = []
    deadlines = {}
    nev = rng.randint(8, 40 if tier == 'quick' else 90)
    maxconn = rng.randint(2, 6)

    def do(ev):
        events.append(ev)
        impl.event(ev)

    def due():
        return [c for c, t in deadlines.items() if t <= impl.loop.ms]

    quiet = set()     # connections with an injected write fault that send nothing more

    def quiesce():
        for cid, t in list(impl.tr.items()):
            if t.closing and not t.gone:
                do(['lost', cid])
                deadlines.pop(cid, None) if False else None

    # some histories (monitors only) contain connections whose peer name is missing: the peer reset before
    # connection_made ran.  Such a client never sees a challenge unless the broker sends one, so it only
    # authenticates validly when the implementation under test has actually written OP_INFO to it
    nopeer_script = force_nopeer or (mode == 'sync' and profile in ('adversary', 'loss', 'gauges') and rng.random() < 0.1)
    g.sent_info = lambda cid: any(kind == 'w' for ms, kind, payload in impl.tr[cid].log)
    # one history in eight of the fan-out profiles gets an injected write fault on one subscriber (monitors only)
    wfault_at = rng.randint(nev // 3, nev - 2) if (mode == 'sync' and profile in ('fanout', 'subs', 'adversary') and (force_wfault or rng.random() < 0.125) and nev > 6) else None
    try:
        for _ in range(nev):
            for c in due():
                do(['fire', c])
                deadlines.pop(c, None)
            live = [cid for cid, t in impl.tr.items() if not t.closing and not t.paused and not t.gone and cid not in quiet]
            r = rng.random()
            if (not impl.tr or (r < 0.15 and len(impl.tr) < maxconn)):
                cid = g.next_id
                g.next_id += 1
                nonce = bytes(rng.getrandbits(8) for _ in range(4)) if rng.random() < 0.9 else rng.choice([b'\x00\x00\x00\x00', b'\x01a\x01c'])
                g.nonce[cid] = nonce
                if mode == 'sync' and nopeer_script and impl.tr and rng.random() < 0.4:
                    g.nopeer.add(cid)
                    do(['connect', cid, nonce.hex(), 'nopeer'])
                else:
                    do(['connect', cid, nonce.hex()])
                continue
            if wfault_at is not None and _ >= wfault_at:
                subs_now = [c for c in live if impl.conns[c].active_subscriptions]
                if len(subs_now) >= 2:
                    wfault_at = None
                    victim = rng.choice(subs_now)
                    do(['wfault', victim])
                    # most faulty connections stay silent afterwards (they are only published to, or end): those
                    # histories are inside the model's vocabulary (stepF) and are compared with it event by event
                    if victim not in deadlines and rng.random() < 0.7:
                        quiet.add(victim)
                    continue
            if mode == 'sync' and g.rows and rng.random() < {'preauth': 0.08, 'reauth': 0.08, 'spoof': 0.06, 'acl': 0.06, 'adversary': 0.04}.get(profile, 0.0):
                do(g.store_change())
                continue
            pend = [(cid, i) for cid, futs in impl.pending.items() for i in range(len(futs))]
            if pend and r < 0.5:
                cid, i = rng.choice(pend)
                ident = g.ident.get(cid)
                k = rng.random()
                if k < 0.7 and ident in g.rows:
                    row = cfg['rows'][ident.encode().hex() or '-']
                    res = ['row', row]
                elif k < 0.8:
                    res = ['row', {'secret': b'other'.hex(), 'owner': b'o'.hex(), 'pubchans': [], 'subchans': []}]
                elif k < 0.9:
                    res = ['missing']
                else:
                    res = ['raised']
                do(['lookup_done', cid, i, res])
                continue
            wl = {'loss': 0.2, 'gauges': 0.15, 'adversary': 0.12, 'window': 0.1}.get(profile, 0.06)
            if r < 0.15 + wl and impl.tr:
                cands = [cid for cid, t in impl.tr.items() if not t.gone]
                if cands:
                    cid = rng.choice(cands)
                    t = impl.tr[cid]
                    if not t.closing and not t.paused and rng.random() < (0.85 if profile == 'window' else 0.4):
                        do(['eof', cid])
                    else:
                        do(['lost', cid])
                    continue
            ws = 0.22 if force_stall else {'stall': 0.35}.get(profile, 0.04)
            if r < 0.15 + wl + ws and impl.tr:
                cands = [cid for cid, t in impl.tr.items() if not t.gone and cid not in quiet]
                if cands:
                    cid = rng.choice(cands)
                    if cid in deadlines:
                        if rng.random() < 0.5:
                            if rng.random() < 0.35:
                                # the buffer drains and refills within one loop iteration
                                impl.idle = False
                                do(['resume', cid])
                                impl.idle = True
                                events.append(['nogap'])
                                do(['pause', cid])
                                deadlines[cid] = impl.loop.ms + GRACE_MS
                                continue
                            do(['resume', cid])
                            deadlines.pop(cid)
                        else:
                            nxt = min(deadlines.values()) - impl.loop.ms
                            dt = rng.choice([nxt, nxt, max(0, nxt - 1), nxt // 2, 1])
                            do(['advance', min(dt, nxt)])
                    else:
                        do(['pause', cid])
                        deadlines[cid] = impl.loop.ms + GRACE_MS
                    continue
            if r > 0.93:
                nxt = (min(deadlines.values()) - impl.loop.ms) if deadlines else 10 ** 9
                do(['advance', min(nxt, rng.choice([1, 10, 1000, 59999, 60000, 60001]))])
                continue
            if r > 0.88:
                quiesce()
                do(['dump'])
                continue
            if not live:
                continue
            cid = rng.choice(live)
            data = g.tail.pop(cid, b'') or g.client_frames(cid)
            if len(data) > 1 and rng.random() < 0.25:
                k = rng.randint(1, len(data) - 1)
                g.tail[cid] = data[k:]
                data = data[:k]
            # several sockets are readable in ONE loop iteration: the next connection's bytes are handled before
            # anything this event deferred (call_soon, task steps) has run.  Only with a synchronous store (an
            # asynchronous look-up is itself started by a task step) and while no drop is due.
            live2 = [c for c in live if c != cid]
            if mode == 'sync' and live2 and not deadlines and rng.random() < {'fanout': 0.3, 'subs': 0.2, 'window': 0.2, 'reauth': 0.15}.get(profile, 0.1):
                impl.idle = False
                do(['data', cid, hexin(data)])
                impl.idle = True
                events.append(['nogap'])
                cid2 = rng.choice(live2)
                if not impl.tr[cid2].closing and not impl.tr[cid2].paused and not impl.tr[cid2].gone:
                    data2 = g.tail.pop(cid2, b'') or g.client_frames(cid2)
                    do(['data', cid2, hexin(data2)])
                else:
                    do(['advance', 0])
                continue
            do(['data', cid, hexin(data)])
        for c in due():
            do(['fire', c])
            deadlines.pop(c, None)
        # closing phase: everybody goes; gauges must return to zero
        if rng.random() < 0.6:
            for cid, t in list(impl.tr.items()):
                if not t.gone:
                    do(['lost', cid])
        else:
            quiesce()
        do(['dump'])
    finally:
        impl.close()
    return {'cfg': cfg, 'events': events, 'profile': profile, 'chans': [c.encode().hex() or '-' for c in CHANS]}


def replan(base, insert_at, lost_c, extra=None):
    """crash-point variant of a script: `lost lost_c` is inserted before event `insert_at`; the remaining
    events are re-validated online against the implementation (events the transport contract forbids
    after the change are dropped, clocks are clamped to the next deadline, timer fires are re-derived)"""
    cfg = base['cfg']
    impl = Impl(cfg)
    events = []
    deadlines = {}

    def do(ev):
        events.append(ev)
        impl.event(ev)

    def fire_due():
        for c, t in sorted(deadlines.items()):
            if t <= impl.loop.ms:
                do(['fire', c])
                deadlines.pop(c, None)

    try:
        for i, ev in enumerate(base['events'] + [['dump']]):
            if i == insert_at:
                if lost_c in impl.tr and not impl.tr[lost_c].gone:
                    fire_due()
                    do(['lost', lost_c])
                    if extra == 'late-verdicts':
                        # the look-ups that were in flight complete (successfully) right after the loss
                        while impl.pending.get(lost_c):
                            ident = impl.pending[lost_c][0].ident
                            row = cfg['rows'].get(ident.encode('utf-8').hex() or '-')
                            do(['lookup_done', lost_c, 0, ['row', row] if row else ['missing']])
            k = ev[0]
            if k in ('fire', 'nogap'):
                continue
            fire_due()
            c = ev[1] if len(ev) > 1 and k not in ('advance', 'dump') else None
            t = impl.tr.get(c)
            if k == 'connect':
                if c in impl.tr:
                    continue
            elif k == 'data':
                if t is None or t.closing or t.paused or t.gone:
                    continue
            elif k == 'eof':
                if t is None or t.closing or t.paused:
                    continue
            elif k == 'lost':
                if t is None or t.gone:
                    continue
            elif k == 'lookup_done':
                if t is None or ev[2] >= len(impl.pending.get(c, [])):
                    if t is not None and impl.pending.get(c):
                        ev = [k, c, 0, ev[3]]
                    else:
                        continue
            elif k == 'pause':
                if t is None or t.gone or c in deadlines:
                    continue
                deadlines[c] = impl.loop.ms + GRACE_MS
            elif k == 'resume':
                if t is None or t.gone:
                    continue
                deadlines.pop(c, None)
            elif k == 'advance':
                nxt = (min(deadlines.values()) - impl.loop.ms) if deadlines else 10 ** 9
                ev = ['advance', min(ev[1], max(nxt, 0))]
            elif k == 'dump':
                for cid, tt in list(impl.tr.items()):
                    if tt.closing and not tt.gone:
                        do(['lost', cid])
            do(ev)
    finally:
        impl.close()
    out = dict(base)
    out['events'] = events
    out['variant'] = {'lost': lost_c, 'at': insert_at}
    return out


def loss_sweep(base, rng, tier, limit):
    """variants of `base` with a connection lost at sampled (quick) or all (thorough) points"""
    evs = base['events']
    seen = {}
    points = []
    for i, ev in enumerate(evs):
        for c in list(seen):
            points.append((i, c))
        if ev[0] == 'connect':
            seen[ev[1]] = True
    # favour points right after a data event of that connection (mid-frame, look-up pending, just subscribed)
    hot = [(i, c) for (i, c) in points if i > 0 and evs[i - 1][0] in ('data', 'pause') and evs[i - 1][1] == c]
    rng.shuffle(points)
    rng.shuffle(hot)
    chosen = (hot + points)[:limit] if tier == 'quick' else (hot + [p for p in points if p not in hot])[:limit]
    late = base['cfg']['mode'] == 'async'
    return [replan(base, i, c, extra='late-verdicts' if (late and k % 2 == 0) else None) for k, (i, c) in enumerate(chosen)]


def locate_divergence(script, drv):
    """index of the first event after which model and implementation visibly differ (dump after each event)"""
    probe = dict(script)
    evs = []
    for ev in script['events']:
        if ev[0] not in ('dump', 'nogap'):
            evs.append(ev)
            evs.append(['dump'])
    probe['events'] = evs
    r = Result('broker')
    run_script(probe, drv, r)
    if not r.disagreements:
        return None
    w = r.disagreements[0]['what']
    if w.startswith('dump '):
        k = int(w.split()[1])
        return k          # k-th dump follows the k-th non-dump event
    if w.startswith('model rejects event'):
        return int(w.split()[3]) // 2
    return len([e for e in script['events'] if e[0] != 'dump']) - 1


def probe_variants(script, idx):
    """directed search around a diverging event: observers subscribed to everything are added first, and
    the diverging chunk is extended with batches of probing frames (publishes under every ident on every
    channel; subscribes to every channel followed by publishes from a clean publisher)"""
    cfg = script['cfg']
    rows = {hx(k): r for k, r in cfg['rows'].items()}
    base = [e for e in script['events'] if e[0] not in ('dump', 'nogap')]
    if idx is None or idx >= len(base):
        return []
    ev = base[idx]
    chans = sorted({hx(c) for r in rows.values() for c in r['pubchans'] + r['subchans']})
    idents = list(rows) + [b'nobody']
    pre = []
    nid = 900
    observers = []
    for ident, r in rows.items():
        if not r['subchans']:
            continue
        nonce = bytes([nid % 256, 1, 2, 3])
        pre.append(['connect', nid, nonce.hex()])
        data = enc(P.OP_AUTH, p8(ident) + hashlib.sha1(nonce + hx(r['secret'])).digest())
        for c in r['subchans']:
            data += enc(P.OP_SUBSCRIBE, p8(ident) + hx(c))
        pre.append(['data', nid, hexin(data)])
        if cfg['mode'] == 'async':
            pre.append(['lookup_done', nid, 0, ['row', r]])
        observers.append(nid)
        nid += 1
    pubs = b''.join(enc(P.OP_PUBLISH, p8(i) + p8(ch) + b'probe') for i in idents for ch in chans)
    subs = b''.join(enc(P.OP_SUBSCRIBE, p8(b'x') + ch) for ch in chans)
    out = []
    if ev[0] in ('data', 'lookup_done'):
        c = ev[1]
        cnonce = next((hx(e[2]) for e in base if e[0] == 'connect' and e[1] == c), b'\x00' * 4)
        # state enrichment: the same chunk behind a valid AUTH (+ subscriptions) as each identity
        heads = [b'']
        if cfg['mode'] == 'sync':
            for ident, r in rows.items():
                h = enc(P.OP_AUTH, p8(ident) + hashlib.sha1(cnonce + hx(r['secret'])).digest())
                for ch in r['subchans']:
                    h += enc(P.OP_SUBSCRIBE, p8(ident) + hx(ch))
                heads.append(h)
        tails = [(h, t) for h in heads for t in (pubs, subs, subs + pubs)]
        for h, t in tails:
            if ev[0] == 'data':
                evs = base[:idx] + pre + [['data', c, hexin(h + hx(ev[2]) + t)]]
            else:
                # park the probes behind the pending look-up, then deliver the verdict
                evs = base[:idx] + pre + [ev]
            # a clean publisher then publishes on every channel (closing-window leaks)
            for ident, r in rows.items():
                if r['pubchans']:
                    nonce = bytes([nid % 256, 9, 9, 9])
                    evs.append(['connect', nid, nonce.hex()])
                    data = enc(P.OP_AUTH, p8(ident) + hashlib.sha1(nonce + hx(r['secret'])).digest())
                    for ch in r['pubchans']:
                        data += enc(P.OP_PUBLISH, p8(ident) + p8(hx(ch)) + b'late')
                    evs.append(['data', nid, hexin(data)])
                    if cfg['mode'] == 'async':
                        evs.append(['lookup_done', nid, 0, ['row', r]])
                    nid += 1
                    break
            v = dict(script)
            v['events'] = evs + [['dump']]
            v['variant'] = {'probe': True, 'at': idx}
            out.append(v)
    return out


def directed_search(res, drv, limit=4):
    """when the correspondence broke: look for a concrete property violation near each disagreement"""
    done = 0
    for dis in list(res.disagreements)[:limit]:
        try:
            idx = locate_divergence(dis['script'], drv)
            for v in probe_variants(dis['script'], idx):
                try:
                    v2 = replan(v, -1, None)
                except Exception:
                    v2 = v
                r2 = Result('broker')
                run_script(v2, drv, r2, want_model=False)
                res.violations += r2.violations
                res.note('directed-search.variants')
                done += 1
        except Exception as e:  # the search is best effort
            res.note('directed-search.error')
    return done


PROFILES = {
    'C01': ['fanout', 'window', 'subs', 'adversary', 'loss', 'reauth', 'fanout+wfault'],
    'C02': ['preauth', 'preauth', 'adversary'],
    'C03': ['spoof', 'reauth', 'acl', 'spoof'],
    'C04': ['acl', 'window', 'adversary', 'reauth', 'loss'],
    'C08': ['subs', 'reauth', 'gauges', 'subs'],
    'C09': ['loss', 'window', 'gauges', 'async', 'fanout', 'loss+nopeer'],
    'C10': ['adversary', 'window', 'loss', 'stall', 'adversary', 'fanout+wfault', 'window+nopeer', 'adversary+nopeer'],
    'C14': ['async', 'async', 'async+stall'],
    'C15': ['stall', 'stall', 'fanout'],
    'C19': ['gauges', 'reauth', 'loss', 'subs', 'gauges', 'gauges+nopeer'],
}


def run(tier, seed, drv, prop=None, n=None):
    res = Result('broker')
    res.model_used = drv is not None
    rng = random.Random('broker-%s-%s' % (prop, seed))
    n = n or {'quick': 250, 'thorough': 4000}[tier]
    profiles = PROFILES.get(prop, ['fanout', 'adversary'])
    for k in range(n):
        profile = profiles[k % len(profiles)]
        try:
            script = gen_script(rng, tier, profile)
            # once the correspondence is known to be broken, the remaining histories are still run on the
            # implementation and judged by the monitors: the search for a failing input goes on
            flags, viol = run_script(script, drv if len(res.disagreements) <= 10 else None, res)
        except Timeout:
            res.violation(prop, 'termination', 'the broker did not finish handling an event within 20 s while generating a history', {'section': 'generator-timeout', 'profile': profile, 'k': k})
            continue
        res.note('profile.' + profile)
        key = ['b', profile, len(script['events']), sorted(flags)]
        if 'auth-ok' in flags:
            res.nontriv([hashlib.sha1(json.dumps(script['events']).encode()).hexdigest()])
        if len(res.samples) < 3 and 'publish-with-recipients' in flags:
            res.sample({'cfg': script['cfg'], 'events': [e if e[0] != 'data' or len(e[2]) < 200 else [e[0], e[1], e[2][:60] + '...'] for e in script['events'][:25]]})
        if len(res.violations) > 50:
            break
    # crash-point sweep: connections lost at chosen points of freshly generated base histories
    if prop in ('C09', 'C10', 'C14', 'C19', 'C01', 'C04'):
        nbase, per = {'quick': (12, 6), 'thorough': (60, 40)}[tier]
        for k in range(nbase):
            base = gen_script(rng, 'quick', 'async' if (k % 3 == 0 and prop != 'C15') else profiles[k % len(profiles)])
            for var in loss_sweep(base, rng, tier, per):
                flags, viol = run_script(var, drv if len(res.disagreements) <= 10 else None, res)
                res.note('loss-sweep.variants')
                res.nontriv([hashlib.sha1(json.dumps(var['events']).encode()).hexdigest()])
                if len(res.violations) > 50:
                    break
    if res.disagreements and not [v for v in res.violations if v['property'] == prop]:
        directed_search(res, drv)
    if prop == 'C02':
        nonce_variety(res)
        unusable_secret(res)
    res.assumptions += [
        'asyncio selector-transport contract as implemented by harness FakeTransport (close idempotent and immediate for is_closing; no data_received after close or while reading is paused; pause/resume_reading no-ops on a closing transport; write after close accepted; exception escaping data_received force-closes that transport only; exceptions in connection_lost / future callbacks go to the loop exception handler)',
        'credential rows carry str secret/owner and lists of str channels; a store answers all look-ups synchronously or all asynchronously within one run',
        'OP_ERROR texts are not compared; set-ordered output is sorted; time is virtual (VirtualLoop)',
    ]
    return res


def nonce_variety(res):
    """C02 clause that no model can express: the real os.urandom nonces are not constant"""
    loop = VirtualLoop()
    asyncio.set_event_loop(loop)
    try:
        from hpfeeds.broker.auth.memory import Authenticator
        for mod in (BC, BS):
            cur = getattr(mod, 'os', None)
            if isinstance(cur, UrandomShim):
                mod.os = cur._real
        srv = BS.Server(Authenticator({}), name='hpfeeds')
        nonces = []

        class _T(object):
            # the challenge is read off the wire (the OP_INFO written by connection_made), not from an attribute
            def __init__(self, port):
                self.port, self.w = port, []

            def write(self, b):
                self.w.append(bytes(b))

            def get_extra_info(self, name, default=None):
                return ('127.0.0.1', self.port) if name == 'peername' else default

            def close(self):
                pass

            def is_closing(self):
                return False

            def pause_reading(self):
                pass

            def resume_reading(self):
                pass

            def set_write_buffer_limits(self, *a, **k):
                pass
        for i in range(16):
            c = BC.Connection(srv)
            t = _T(40000 + (i % 2))          # the same two peers again and again
            c.connection_made(t)
            fr = parse_one(t.w[0]) if t.w else None
            if not fr or fr[0] != P.OP_INFO or not fr[1]:
                res.violation('C02', 'first-bytes-info', 'connection %d: the first write is not an OP_INFO frame' % i, {'section': 'nonce-variety'})
                return
            nonces.append(fr[1][1 + fr[1][0]:])
        res.evaluations += 1
        res.note('nonce-variety.distinct', len(set(nonces)))
        if len(set(nonces)) < 2 or any(len(n) != 4 for n in nonces):
            res.violation('C02', 'constant-nonce', '16 connections got nonces %r' % sorted(set(nonces))[:3], {'section': 'nonce-variety'})
        elif len(set(nonces)) < len(nonces):
            # 16 independent 4-byte random values collide with probability 3e-8: a repeat means the challenge is being
            # reused across connections (cached per server, per peer, per batch), which is what the nonce is there to prevent
            res.violation('C02', 'repeated-nonce', '16 connections got only %d distinct nonces' % len(set(nonces)), {'section': 'nonce-variety'})
        else:
            # ... and over a LONG run of accepts on one Server (a pool of pre-drawn challenges that wraps around, a counter
            # that overflows): 4 200 independent 4-byte values contain an equal pair with probability 0.002 and three
            # equal pairs with probability below 1e-8, so three or more repeats mean challenges are being handed out again
            seen, pairs, first = {}, 0, None
            for i in range(16, 4200):
                c = BC.Connection(srv)
                t = _T(40000 + (i % 7))
                c.connection_made(t)
                fr = parse_one(t.w[0]) if t.w else None
                if not fr or fr[0] != P.OP_INFO:
                    break
                n_ = fr[1][1 + fr[1][0]:]
                if n_ in seen:
                    pairs += 1
                    first = first or (seen[n_], i)
                seen[n_] = i
                c.connection_lost(None)
            res.note('nonce-variety.long-run-repeats', pairs)
            if pairs >= 3:
                res.violation('C02', 'nonce-reused-later', 'over 4 200 accepted connections %d challenges were handed out a second time (first: connections %d and %d got the same nonce)' % (pairs, first[0], first[1]), {'section': 'nonce-variety'})
    finally:
        loop.close()
        asyncio.set_event_loop(None)


def unusable_secret(res):
    """C02, store rows WITHOUT a usable secret (a NULL column in sqlite, `null` / a number / a list in a hand-edited JSON
    file reach the broker as they are): no digest equals SHA1(nonce || secret) for such a row, so nothing a connection
    presents for that identity may authenticate it or be acted on.  How the broker gets rid of the connection (OP_ERROR
    and close, or the transport aborted because the handler raised) is not judged here.  Monitor only."""
    import hashlib
    loop = VirtualLoop()
    asyncio.set_event_loop(loop)
    try:
        from hpfeeds.broker.auth.memory import Authenticator
        for mod in (BC, BS):
            cur = getattr(mod, 'os', None)
            if isinstance(cur, UrandomShim):
                mod.os = cur._real

        class _T(object):
            def __init__(self, port):
                self.port, self.w, self.closing = port, [], False

            def write(self, b):
                self.w.append(bytes(b))

            def get_extra_info(self, name, default=None):
                return ('127.0.0.1', self.port) if name == 'peername' else default

            def close(self):
                self.closing = True

            abort = close

            def is_closing(self):
                return self.closing

            def pause_reading(self):
                pass

            def resume_reading(self):
                pass

            def set_write_buffer_limits(self, *a, **k):
                pass

            def get_write_buffer_size(self):
                return 0

        def nonce_of(t):
            fr = parse_one(t.w[0]) if t.w else None
            return fr[1][1 + fr[1][0]:] if fr and fr[0] == P.OP_INFO else b''

        for secret in (None, 12345, ['x'], {}, 0):
            for dk in ('empty', 'sha1-nonce', 'sha1-nonce-repr', 'zeros'):
                PROM.reset()
                creds = {'sensor': {'secret': secret, 'owner': 'o', 'pubchans': ['c1'], 'subchans': ['c1']},
                         'watch': {'secret': 'w', 'owner': 'o', 'pubchans': ['c1'], 'subchans': ['c1']}}
                srv = BS.Server(Authenticator(creds), name='hp')
                w, wt = BC.Connection(srv), _T(41000)
                w.connection_made(wt)
                w.data_received(P.msgauth(nonce_of(wt), 'watch', 'w') + P.msgsubscribe('watch', 'c1'))
                v, vt = BC.Connection(srv), _T(41001)
                v.connection_made(vt)
                n_ = nonce_of(vt)
                digest = {'empty': b'', 'sha1-nonce': hashlib.sha1(n_).digest(),
                          'sha1-nonce-repr': hashlib.sha1(n_ + str(secret).encode()).digest(), 'zeros': bytes(20)}[dk]
                before = len(wt.w)
                try:
                    v.data_received(P.msghdr(P.OP_AUTH, P.strpack8('sensor') + digest) + P.msgsubscribe('sensor', 'c1') +
                                    P.msgpublish('sensor', 'c1', b'forged'))
                except Exception:
                    vt.closing = True          # asyncio aborts a transport whose data_received raised
                res.evaluations += 1
                res.note('unusable-secret.%s' % type(secret).__name__)
                script = {'section': 'unusable-secret', 'secret': repr(secret), 'digest': dk}
                got = [parse_one(b) for b in wt.w[before:]]
                if v.ak is not None:
                    res.violation('C02', 'authenticated-without-secret', 'identity %r whose stored secret is %r (unusable) was authenticated by a %s digest' % ('sensor', secret, dk), script)
                elif any(f and f[0] == P.OP_PUBLISH for f in got) or any(m is v for m in srv.subscriptions.get('c1', [])):
                    res.violation('C02', 'acted-before-auth', 'frames behind an OP_AUTH for an identity without a usable secret (%r, %s digest) were acted on' % (secret, dk), script)
    finally:
        loop.close()
        asyncio.set_event_loop(None)


def replay(script, drv):
    res = Result('broker')
    if script.get('section') == 'unusable-secret':
        unusable_secret(res)
        return res
    if script.get('section') == 'nonce-variety':
        nonce_variety(res)
        return res
    if any(e[0] == 'wfault' for e in script.get('events', [])):
        # which subscribers come AFTER the faulty one in `set(...)` iteration depends on object addresses: the same
        # history may or may not expose a fan-out that stops at the fault; try a few fresh brokers
        for _ in range(8):
            res = Result('broker')
            run_script(script, drv, res)
            if res.violations:
                break
        return res
    run_script(script, drv, res)
    return res
