"""jsonreload engine (C18): file contents — valid tables, EVERY truncation prefix of a valid file, type-mutated
entries, non-JSON bytes, invalid UTF-8, a missing file — are written, the real Authenticator.load() is called in
sequence, and get_authkey is compared for all idents seen so far with the Lean model (which receives what
json.load produced, or ERR)."""
import json
import os
import random
import tempfile

import compat  # noqa: F401
from engines import Result
from lean_driver import hexin

import hpfeeds.broker.auth.json as JS

compat.check_repo_origin(JS)
import logging
logging.getLogger(JS.__name__).setLevel(logging.CRITICAL + 1)


def ser(v):
    """compact one-token serialisation understood by the driver (Driver/Stores.lean)"""
    if v is None:
        return 'n'
    if v is True:
        return 't'
    if v is False:
        return 'f'
    if isinstance(v, (int, float)):
        return '#%s;' % repr(v).encode().hex()
    if isinstance(v, str):
        return 's%s;' % v.encode('utf-8').hex()
    if isinstance(v, list):
        return '[' + ''.join(ser(x) for x in v) + ']'
    if isinstance(v, dict):
        return '{' + ''.join(ser(k) + ser(x) for k, x in v.items()) + '}'
    raise TypeError(v)


def entry(rng, valid=True):
    e = {'owner': rng.choice(['o', 'owner', '']), 'secret': rng.choice(['s', 'sécret', '']),
         'pubchans': rng.sample(['c1', 'c2', 'é'], rng.randint(0, 2)), 'subchans': rng.sample(['c1', 'c2', 'é'], rng.randint(0, 2))}
    if not valid:
        k = rng.choice(['missing', 'str-list', 'null-list', 'not-dict', 'num', 'dict-list', 'extra-ok'])
        if k == 'missing':
            e.pop(rng.choice(list(e)))
        elif k == 'str-list':
            e[rng.choice(['pubchans', 'subchans'])] = 'c1'
        elif k == 'null-list':
            e[rng.choice(['pubchans', 'subchans'])] = None
        elif k == 'not-dict':
            return rng.choice(['x', 1, None, [], True])
        elif k == 'num':
            e[rng.choice(['pubchans', 'subchans'])] = 3
        elif k == 'dict-list':
            e[rng.choice(['pubchans', 'subchans'])] = {}
        else:
            e['extra'] = 1   # still valid
    elif rng.random() < 0.15:
        e['secret'] = rng.choice([1, None, ['x'], 0])   # non-string secret/owner are accepted by load()
    return e


def gen_table(rng, valid=True):
    names = rng.sample(['alice', 'bob', 'carol', 'é', '', "a'b", 'x y'], rng.randint(0, 4))
    t = {n: entry(rng) for n in names}
    if not valid and names:
        t[rng.choice(names)] = entry(rng, valid=False)
    elif not valid:
        return rng.choice([[], 'str', 3, None, [{'a': 1}]])
    return t


def run(tier, seed, drv):
    res = Result('jsonreload')
    res.model_used = drv is not None
    rng = random.Random('jsonreload-%s' % seed)
    n = {'quick': 40, 'thorough': 600}[tier]
    tmp = tempfile.mkdtemp(prefix='verif_json_')
    path = os.path.join(tmp, 'users.json')
    try:
        for k in range(n):
            open(path, 'w').write('{}')
            a = JS.Authenticator(path)
            if drv is not None:
                drv.ask('j.reset')
            seen = set()
            shadow = {}
            last_mtime = None
            steps = []
            nsteps = rng.randint(3, 10)
            base = json.dumps(gen_table(rng), ensure_ascii=rng.random() < 0.5)
            for st in range(nsteps):
                kind = rng.choice(['valid', 'valid', 'invalid-entry', 'truncated', 'garbage', 'bad-utf8', 'missing', 'empty', 'whitespace'])
                content = None
                if kind == 'valid':
                    base = json.dumps(gen_table(rng), ensure_ascii=rng.random() < 0.5)
                    content = base.encode('utf-8')
                elif kind == 'invalid-entry':
                    content = json.dumps(gen_table(rng, valid=False)).encode('utf-8')
                elif kind == 'truncated':
                    b = base.encode('utf-8')
                    content = b[:rng.randint(0, max(0, len(b) - 1))]
                elif kind == 'garbage':
                    content = rng.choice([b'not json', b'{"a": }', b'[1,2', b'{"a": {"owner": "o"}} trailing', b'\x00\x01', b"{'a': 1}"])
                elif kind == 'bad-utf8':
                    content = b'{"a\xff": {}}'
                elif kind == 'empty':
                    content = b''
                elif kind == 'whitespace':
                    content = b'  \n'
                steps.append((kind, content))
            # exhaustive truncation sweep once per run of the engine
            if k == 0:
                b = json.dumps({'alice': entry(random.Random(1)), 'bob': entry(random.Random(2))}).encode()
                steps = [('valid', b)] + [('truncated', b[:i]) for i in range(len(b))] + [('valid', b)]
                res.note('truncation-sweep-prefixes', len(b))
            for kind, content in steps:
                res.evaluations += 1
                if content is None:
                    if os.path.exists(path):
                        os.unlink(path)
                else:
                    with open(path, 'wb') as f:
                        f.write(content)
                    # file metadata is part of the environment: restored backups, `cp -p`, clock steps
                    r_ = rng.random()
                    if r_ < 0.25:
                        t_ = 1000000000 + rng.randint(0, 10 ** 6)
                        os.utime(path, (t_, t_))
                    elif r_ < 0.35 and last_mtime is not None:
                        os.utime(path, ns=(last_mtime, last_mtime))
                    last_mtime = os.stat(path).st_mtime_ns
                # what json.load produces (the model's input)
                try:
                    with open(path, 'r') as fp:
                        parsed = json.load(fp)
                    doc = ser(parsed)
                    ok = True
                except Exception:
                    doc, ok, parsed = 'ERR', False, None
                before = {i: a.get_authkey(i) for i in seen}
                try:
                    a.load()
                except Exception as e:
                    res.violation('C18', 'load-raises', 'load() raised %r on %s content' % (e, kind), {'steps': [(k_, (c or b'').hex()) for k_, c in steps]})
                    break
                # spec oracle: valid iff dict of dicts with the four keys and list-typed chans
                valid = ok and isinstance(parsed, dict) and all(
                    isinstance(v, dict) and all(x in v for x in ('owner', 'secret', 'pubchans', 'subchans')) and
                    isinstance(v['pubchans'], list) and isinstance(v['subchans'], list) for v in parsed.values())
                if valid:
                    shadow = parsed
                    seen |= set(parsed)
                res.note('step.' + kind + ('.valid' if valid else '.kept'))
                script = {'steps': [(k_, (c if c is None else c.hex())) for k_, c in steps]}
                for i in sorted(seen | {'nobody'}):
                    got = a.get_authkey(i)
                    want = shadow.get(i)
                    want_rec = None if not want else {'secret': want['secret'], 'ident': i, 'pubchans': want['pubchans'], 'subchans': want['subchans'], 'owner': want['owner']}
                    if got != want_rec:
                        res.violation('C18', 'all-or-nothing', 'after a %s file, get_authkey(%r) = %r; the last valid file says %r' % (kind, i, got, want_rec), script)
                    if drv is None:
                        continue
                if drv is not None:
                    mo = drv.ask('j.load ' + doc)
                    if mo != 'ok %d' % len(a.db):
                        res.disagree('load (%s)' % kind, script, 'ok %d' % len(a.db), mo)
                        break
                    for i in sorted(seen | {'nobody'}):
                        got = a.get_authkey(i)
                        im = 'none' if not got else 'rec %s %s %s %s' % (ser(got['secret']), ser(got['pubchans']), ser(got['subchans']), ser(got['owner']))
                        mo = drv.ask('j.get ' + hexin(i.encode('utf-8')))
                        if mo != im:
                            res.disagree('get_authkey(%r) after %s' % (i, kind), script, im, mo)
                            break
            res.nontriv([[k_ for k_, _ in steps], base[:80]])
            res.sample({'steps': [(k_, (c or b'')[:60].decode('latin1')) for k_, c in steps[:6]]}, limit=3)
    finally:
        import shutil
        shutil.rmtree(tmp, ignore_errors=True)
    res.assumptions += [
        "json.load (Python's parser, also the one the code uses) is an input of the model: the model receives the parsed value or ERR",
        'which file-system events trigger load() (inotify) is not modelled; a half-written file is covered as a content, not as a schedule',
    ]
    return res


def replay(script, drv):
    res = Result('jsonreload')
    res.note('replay-not-implemented')
    return res
