"""jsonreload engine (C18): file contents — valid tables, EVERY truncation prefix of a valid file, type-mutated
entries, non-JSON bytes, invalid UTF-8, a missing file — are written, the real Authenticator.load() is called in
sequence, and get_authkey is compared for all idents seen so far with the Lean model (which receives what
json.load produced, or ERR)."""
import json
import os
import random
import tempfile

import compat  # noqa: F401
from engines import Result
from lean_driver import hexin

import hpfeeds.broker.auth.json as JS

compat.check_repo_origin(JS)
import logging
logging.getLogger(JS.__name__).setLevel(logging.CRITICAL + 1)


def ser(v):
    """compact one-token serialisation understood by the driver (Driver/Stores.lean)"""
    if v is None:
        return 'n'
    if v is True:
        return 't'
    if v is False:
        return 'f'
    if isinstance(v, (int, float)):
        return '#%s;' % repr(v).encode().hex()
    if isinstance(v, str):
        return 's%s;' % v.encode('utf-8').hex()
    if isinstance(v, list):
        return '[' + ''.join(ser(x) for x in v) + ']'
    if isinstance(v, dict):
        return '{' + ''.join(ser(k) + ser(x) for k, x in v.items()) + '}'
    raise TypeError(v)


def entry(rng, valid=True):
    e = {'owner': rng.choice(['o', 'owner', '']), 'secret': rng.choice(['s', 'sécret', '']),
         'pubchans': rng.sample(['c1', 'c2', 'é'], rng.randint(0, 2)), 'subchans': rng.sample(['c1', 'c2', 'é'], rng.randint(0, 2))}
    if not valid:
        k = rng.choice(['missing', 'str-list', 'null-list', 'not-dict', 'num', 'dict-list', 'extra-ok'])
        if k == 'missing':
            e.pop(rng.choice(list(e)))
        elif k == 'str-list':
            e[rng.choice(['pubchans', 'subchans'])] = 'c1'
        elif k == 'null-list':
            e[rng.choice(['pubchans', 'subchans'])] = None
        elif k == 'not-dict':
            return rng.choice(['x', 1, None, [], True])
        elif k == 'num':
            e[rng.choice(['pubchans', 'subchans'])] = 3
        elif k == 'dict-list':
            e[rng.choice(['pubchans', 'subchans'])] = {}
        else:
            e['extra'] = 1   # still valid
    elif rng.random() < 0.15:
        e['secret'] = rng.choice([1, None, ['x'], 0])   # non-string secret/owner are accepted by load()
    elif rng.random() < 0.12:
        # load() checks that the channel fields are LISTS, not what is in them: such a file is valid and must replace the
        # table as a whole like any other
        e[rng.choice(['pubchans', 'subchans'])] = rng.choice([['c1', 7], [None], ['c2', ['x']], [True, 'c1'], [{}]])
    return e


def gen_table(rng, valid=True):
    names = rng.sample(['alice', 'bob', 'carol', 'é', '', "a'b", 'x y'], rng.randint(0, 4))
    t = {n: entry(rng) for n in names}
    if not valid and names:
        t[rng.choice(names)] = entry(rng, valid=False)
    elif not valid:
        return rng.choice([[], 'str', 3, None, [{'a': 1}]])
    return t


def rotate(content, rng):
    """a DIFFERENT valid file of exactly the same byte length: one ASCII letter of one value changed
    (a secret rotated to one of equal length); None when the content offers no such position"""
    try:
        doc = json.loads(content.decode('utf-8'))
    except Exception:
        return None
    if not isinstance(doc, dict):
        return None
    cands = []
    for name, e in doc.items():
        if isinstance(e, dict):
            for key in ('secret', 'owner'):
                v = e.get(key)
                if isinstance(v, str) and v and v[0].isascii() and v[0].isalpha():
                    cands.append((name, key))
            for key in ('pubchans', 'subchans'):
                v = e.get(key)
                if isinstance(v, list):
                    for i, c in enumerate(v):
                        if isinstance(c, str) and c and c[0].isascii() and c[0].isalpha():
                            cands.append((name, key, i))
    if not cands:
        return None
    c = rng.choice(cands)
    flip = lambda ch: 'q' if ch != 'q' else 'r'
    if len(c) == 2:
        v = doc[c[0]][c[1]]
        doc[c[0]][c[1]] = flip(v[0]) + v[1:]
    else:
        v = doc[c[0]][c[1]][c[2]]
        doc[c[0]][c[1]][c[2]] = flip(v[0]) + v[1:]
    out = json.dumps(doc, ensure_ascii=(b'\\u' in content or content.isascii())).encode('utf-8')
    return out if len(out) == len(content) and out != content else None


def execute(a, path, steps, res, drv, rng=None, prelude_idents=None, prelude=None):
    """write each step's content (None = delete the file), give the file the step's mtime (recorded on the first
    run, re-applied on replay), call the real load() and judge.  `steps` entries: [kind, content, mtime_ns]; a
    mtime of None is resolved here (environment choice) and written back so that the script replays exactly"""
    seen = set(prelude_idents or ())
    shadow = {}
    last_mtime = None
    last_valid = None       # (mtime_ns, size) of the last file that was valid
    done = []
    for step in steps:
        kind, content = step[0], step[1]
        mt = step[2] if len(step) > 2 else None
        res.evaluations += 1
        if content is None:
            if os.path.exists(path):
                os.unlink(path)
        else:
            with open(path, 'wb') as f:
                f.write(content)
            # file metadata is part of the environment: restored backups, `cp -p`, `rsync -t`, clock steps
            if mt is None and rng is not None:
                r_ = rng.random()
                if kind == 'rotated' and last_valid is not None:
                    mt = last_valid[0]
                elif r_ < 0.25:
                    mt = (1000000000 + rng.randint(0, 10 ** 6)) * 10 ** 9
                elif r_ < 0.35 and last_mtime is not None:
                    mt = last_mtime
            if mt is not None:
                os.utime(path, ns=(mt, mt))
            mt = last_mtime = os.stat(path).st_mtime_ns
        done.append([kind, None if content is None else content.hex(), mt])
        script = {'steps': done + [[k_, (c if c is None else c.hex()), None] for k_, c, *_ in steps[len(done):]]}
        if prelude is not None:
            script['prelude'] = prelude.hex()
        # what json.load produces (the model's input)
        try:
            with open(path, 'r') as fp:
                parsed = json.load(fp)
            doc = ser(parsed)
            ok = True
        except Exception:
            doc, ok, parsed = 'ERR', False, None
        try:
            a.load()
        except Exception as e:
            res.violation('C18', 'load-raises', 'load() raised %r on %s content' % (e, kind), script)
            break
        # spec oracle: valid iff dict of dicts with the four keys and list-typed chans
        valid = ok and isinstance(parsed, dict) and all(
            isinstance(v, dict) and all(x in v for x in ('owner', 'secret', 'pubchans', 'subchans')) and
            isinstance(v['pubchans'], list) and isinstance(v['subchans'], list) for v in parsed.values())
        if valid:
            shadow = parsed
            seen |= set(parsed)
            last_valid = (mt, len(content))
        res.note('step.' + kind + ('.valid' if valid else '.kept'))
        raised = False
        for i in sorted(seen | {'nobody'}):
            try:
                got = a.get_authkey(i)
            except Exception as e:
                res.violation('C18', 'lookup-raises', 'after a %s file, get_authkey(%r) raises %r: a mapping that fails the checks is being served' % (kind, i, e), script)
                raised = True
                break
            want = shadow.get(i)
            want_rec = None if not want else {'secret': want['secret'], 'ident': i, 'pubchans': want['pubchans'], 'subchans': want['subchans'], 'owner': want['owner']}
            if got != want_rec:
                res.violation('C18', 'all-or-nothing', 'after a %s file, get_authkey(%r) = %r; the last valid file says %r' % (kind, i, got, want_rec), script)
        if raised:
            break
        if drv is not None:
            mo = drv.ask('j.load ' + doc)
            if mo != 'ok %d' % len(a.db):
                res.disagree('load (%s)' % kind, script, 'ok %d' % len(a.db), mo)
                drv = None          # the rest of the history still runs on the implementation, judged by the monitor
                continue
            bad = False
            for i in sorted(seen | {'nobody'}):
                got = a.get_authkey(i)
                im = 'none' if not got else 'rec %s %s %s %s' % (ser(got['secret']), ser(got['pubchans']), ser(got['subchans']), ser(got['owner']))
                mo = drv.ask('j.get ' + hexin(i.encode('utf-8')))
                if mo != im:
                    res.disagree('get_authkey(%r) after %s' % (i, kind), script, im, mo)
                    bad = True
                    break
            if bad:
                drv = None


def load_prelude(tmp, content):
    p2 = os.path.join(tmp, 'other-users.json')
    with open(p2, 'wb') as f:
        f.write(content)
    other = JS.Authenticator(p2)
    try:
        other.load()
    except Exception:
        pass      # the predecessor instance is scenery: what its load() does is judged when the instance under test loads
    try:
        return sorted(json.loads(content.decode('utf-8')))
    except Exception:
        return []


def run(tier, seed, drv):
    res = Result('jsonreload')
    res.model_used = drv is not None
    rng = random.Random('jsonreload-%s' % seed)
    n = {'quick': 40, 'thorough': 600}[tier]
    tmp = tempfile.mkdtemp(prefix='verif_json_')
    path = os.path.join(tmp, 'users.json')
    try:
        for k in range(n):
            open(path, 'w').write('{}')
            a = JS.Authenticator(path)
            if drv is not None:
                drv.ask('j.reset')
            steps = []
            nsteps = rng.randint(3, 10)
            base = json.dumps(gen_table(rng), ensure_ascii=rng.random() < 0.5)
            last_valid_content = None
            for st in range(nsteps):
                kind = rng.choice(['valid', 'valid', 'rotated', 'invalid-entry', 'truncated', 'garbage', 'bad-utf8', 'missing', 'empty', 'whitespace'])
                content = None
                if kind == 'rotated':
                    content = rotate(last_valid_content, rng) if last_valid_content else None
                    if content is None:
                        kind = 'valid'
                    else:
                        base = content.decode('utf-8')
                        last_valid_content = content
                if kind == 'valid':
                    base = json.dumps(gen_table(rng), ensure_ascii=rng.random() < 0.5)
                    content = base.encode('utf-8')
                    last_valid_content = content
                elif kind == 'invalid-entry':
                    content = json.dumps(gen_table(rng, valid=False)).encode('utf-8')
                    try:
                        # `extra-ok` mutations are still valid tables
                        last_valid_content = None
                    except Exception:
                        pass
                elif kind == 'truncated':
                    b = base.encode('utf-8')
                    content = b[:rng.randint(0, max(0, len(b) - 1))]
                elif kind == 'garbage':
                    content = rng.choice([b'not json', b'{"a": }', b'[1,2', b'{"a": {"owner": "o"}} trailing', b'\x00\x01', b"{'a': 1}"])
                elif kind == 'bad-utf8':
                    content = b'{"a\xff": {}}'
                elif kind == 'empty':
                    content = b''
                elif kind == 'whitespace':
                    content = b'  \n'
                steps.append([kind, content, None])
            # exhaustive truncation sweep once per run of the engine
            if k == 0:
                b = json.dumps({'alice': entry(random.Random(1)), 'bob': entry(random.Random(2))}).encode()
                steps = [['valid', b, None]] + [['truncated', b[:i], None] for i in range(len(b))] + [['valid', b, None]]
                res.note('truncation-sweep-prefixes', len(b))
            # a secret rotated to one of equal length, in a file restored with its old timestamp, with and
            # without a half-written file in between
            if k == 1:
                b = json.dumps({'alice': {'owner': 'o', 'secret': 'secret-one', 'pubchans': ['c1'], 'subchans': ['c1']}}).encode()
                b2 = b.replace(b'secret-one', b'secret-two')
                steps = [['valid', b, None], ['rotated', b2, None], ['truncated', b[:20], None], ['rotated', b, None], ['rotated', b2, None]]
            # every third history is preceded by ANOTHER Authenticator instance (another file) that loaded a valid
            # table: nothing of it may show through this instance
            prelude, pid = None, None
            if k % 3 == 2:
                pt = gen_table(rng) or {'zed': entry(rng)}
                pt['prev-only-%d' % k] = entry(rng)
                prelude = json.dumps(pt).encode('utf-8')
                pid = load_prelude(tmp, prelude)
            execute(a, path, steps, res, drv, rng, prelude_idents=pid, prelude=prelude)
            res.nontriv([[s_[0] for s_ in steps], base[:80]])
            res.sample({'steps': [(s_[0], (s_[1] or b'')[:60].decode('latin1')) for s_ in steps[:6]]}, limit=3)
    finally:
        import shutil
        shutil.rmtree(tmp, ignore_errors=True)
    res.assumptions += [
        "json.load (Python's parser, also the one the code uses) is an input of the model: the model receives the parsed value or ERR",
        'which file-system events trigger load() (inotify) is not modelled; a half-written file is covered as a content, not as a schedule',
        'file metadata is an environment choice: explicit, equal and restored mtimes, equal sizes (recorded in the script, re-applied on replay)',
    ]
    return res


def replay(script, drv):
    res = Result('jsonreload')
    tmp = tempfile.mkdtemp(prefix='verif_json_')
    path = os.path.join(tmp, 'users.json')
    try:
        open(path, 'w').write('{}')
        a = JS.Authenticator(path)
        if drv is not None:
            drv.ask('j.reset')
        steps = [[s_[0], None if s_[1] is None else bytes.fromhex(s_[1]), (s_[2] if len(s_) > 2 else None)] for s_ in script['steps']]
        prelude = bytes.fromhex(script['prelude']) if script.get('prelude') else None
        pid = load_prelude(tmp, prelude) if prelude is not None else None
        execute(a, path, steps, res, drv, None, prelude_idents=pid, prelude=prelude)
    finally:
        import shutil
        shutil.rmtree(tmp, ignore_errors=True)
    return res
