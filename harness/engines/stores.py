"""stores engine (C17): the REAL credential stores are built from generated user tables — memory, env (with a
patched os.environ mapping), JSON file, SQLite (:memory:, rows inserted with bound parameters), the stacked
multi-store in every order, and scripts.broker.get_authenticator — and compared with the Lean table model for
configured, unknown and hostile look-up strings; plus what a broker on that store lets the identity do."""
import itertools
import json
import os
import sys
import random
import tempfile

import compat  # noqa: F401
from engines import Result
from lean_driver import hexf, hexin, hexlist

import hpfeeds.broker.auth.env as ENV
import hpfeeds.broker.auth.json as JS
import hpfeeds.broker.auth.memory as MEM
import hpfeeds.broker.auth.multi as MULTI
import hpfeeds.broker.auth.sqlite as SQL

for m in (ENV, JS, MEM, MULTI, SQL):
    compat.check_repo_origin(m)

HOSTILE = ["'", '"', "' OR '1'='1", "'; DROP TABLE authkeys;--", 'a,b', 'a=b', '../etc/passwd', 'a/b', '%', '_', 'a_b', 'A_OWNER',
           'x_secret', 'é', 'É', 'ß', 'ǆ', '日本', '\U0001F600', 'a b', ' a', 'a ', '', 'a\x00b', 'a\x00', '\\', '%s', '{}', '$HOME',
           'Alice', 'alice', 'ALICE', 'alicE', 'ali', 'alice2', 'null', 'None', '0', 'true', '[]']
CHANS = ['c1', 'c,2', "c'3", '', 'C1', 'é', 'a b', '[]', '"q"', 'c1 ', '\U0001F525hot', 'back\\slash', '\u65e5\u672c']


def b_(s):
    # (a store may hand back text that is not encodable - lone surrogates: that is an observation, not harness trouble)
    return s.encode('utf-8', 'surrogatepass') if isinstance(s, str) else bytes(s)


def gen_table(rng, n=None, env_safe=False):
    n = rng.randint(0, 5) if n is None else n
    t = {}
    pool = HOSTILE if not env_safe else [h for h in HOSTILE if '\x00' not in h and '=' not in h]
    while len(t) < n:
        ident = rng.choice(pool) if rng.random() < 0.8 else ''.join(rng.choice('abXY_\'"é') for _ in range(rng.randint(1, 6)))
        if env_safe and any(ident.upper() == k.upper() for k in t):
            continue
        if ident in t:
            continue
        t[ident] = {
            'secret': rng.choice(['s3cret', "se'cret", 'x', 'sécret', 'a,b', ' ']),
            'owner': rng.choice(['owner', "o'w", '', 'é']),
            'pubchans': rng.sample(CHANS, rng.randint(0, 3)),
            'subchans': rng.sample(CHANS, rng.randint(0, 3)),
        }
    return t


def rec_str(r):
    if not r:
        return 'none'
    return 'rec %s %s [%s] [%s]' % (hexf(b_(r['secret'])), hexf(b_(r['owner'])), ','.join(hexf(b_(c)) for c in r['pubchans']),
                                    ','.join(hexf(b_(c)) for c in r['subchans']))


def model_table(drv, tid, t):
    for ident, r in t.items():
        drv.ask('s.row %d %s %s %s %s %s' % (tid, hexin(b_(ident)), hexin(b_(r['secret'])), hexin(b_(r['owner'])),
                                           hexlist([b_(c) for c in r['pubchans']]), hexlist([b_(c) for c in r['subchans']])))


def lookups(rng, t):
    ls = list(t) + rng.sample(HOSTILE, 10)
    for ident in list(t)[:3]:
        ls += [ident + ' ', ident.upper(), ident.lower(), ident[:-1], ident + '\x00', "%s' --" % ident]
    return ls


class EnvShim(object):
    def __init__(self, mapping):
        self.environ = mapping

    def __getattr__(self, k):
        return getattr(os, k)


def monitor(res, store, kind, t, ident, got, script, exact_case=True):
    """C17 on the implementation: configured -> exactly its record; unknown -> nothing"""
    want = t.get(ident)
    if want is not None:
        if not got:
            res.violation('C17', 'configured-not-found', '%s store: configured identity %r is not returned' % (kind, ident), script)
        else:
            for k in ('secret', 'owner', 'pubchans', 'subchans'):
                if got.get(k) != want[k]:
                    res.violation('C17', 'wrong-record', '%s store: identity %r field %s is %r, configured %r' % (kind, ident, k, got.get(k), want[k]), script)
    elif exact_case and got:
        res.violation('C17', 'unknown-found', '%s store: unconfigured identity %r returns %r' % (kind, ident, got), script)
        if got.get('pubchans'):
            # what that means one layer up (C03): a client that knows the OTHER identity's secret is authenticated under
            # the name `ident`, which has no publish list at all, and its messages are delivered carrying that name
            res.violation('C03', 'store-lends-identity', '%s store answers the unconfigured identity %r with the record of another identity (publish list %r): a broker on this store delivers messages naming %r, an ident nobody was given' % (kind, ident, got.get('pubchans'), ident), script)


def session_on_store(res, stores, t, script):
    import asyncio
    import hpfeeds.broker.server as BS
    import hpfeeds.broker.connection as BC
    import hpfeeds.protocol as P
    from vloop import VirtualLoop

    class _T(object):
        def __init__(self):
            self.w, self.closing = [], False

        def write(self, b):
            self.w.append(bytes(b))

        def get_extra_info(self, name, default=None):
            return ('127.0.0.1', 40123) if name == 'peername' else default

        def close(self):
            self.closing = True

        abort = close

        def is_closing(self):
            return self.closing

        def pause_reading(self):
            pass

        def resume_reading(self):
            pass

        def set_write_buffer_limits(self, *a, **k):
            pass

        def get_write_buffer_size(self):
            return 0
    usable = [i for i, r in t.items() if isinstance(i, str) and isinstance(r.get('secret'), str) and len(i.encode('utf-8')) <= 255
              and all(isinstance(c, str) for c in r.get('pubchans', []) + r.get('subchans', []))]
    if not usable:
        return
    import copy
    t0 = copy.deepcopy(t)      # what was configured (the memory store holds the very objects of `t`)
    loop = VirtualLoop()
    asyncio.set_event_loop(loop)
    try:
        for kind, store in stores:
            for ident in usable[:2]:
                res.evaluations += 1
                try:
                    srv = BS.Server(store, name='hp')
                    for offend in (False, True):
                        c, tr = BC.Connection(srv), _T()
                        c.connection_made(tr)
                        fr = tr.w[0] if tr.w else b''
                        nonce = fr[5 + 1 + fr[5]:] if len(fr) > 6 else b''
                        data = P.msgauth(nonce, ident, t[ident]['secret'])
                        for ch in t[ident]['subchans'][:2]:
                            data += P.msgsubscribe(ident, ch)
                        if offend:
                            data += P.msgpublish(ident, 'not-a-channel-of-anybody', b'x')   # refused: OP_ERROR + close
                        try:
                            c.data_received(data)
                        except Exception:
                            pass
                        c.connection_lost(None)
                except Exception:
                    res.note('session-on-store.error')
                    continue
                res.note('session-on-store.%s' % kind)
                try:
                    got = store.get_authkey(ident)
                except Exception as e:
                    res.violation('C17', 'lookup-raises', '%s store raised %r for %r after a broker session of that identity had ended' % (kind, e, ident), dict(script, lookup=ident))
                    continue
                before = len(res.violations)
                monitor(res, store, kind, t0, ident, got, dict(script, lookup=ident, after='a broker session of this identity (authenticate, subscribe, one refused publish) has ended'))
                for v in res.violations[before:]:
                    v['what'] += ' - AFTER a broker session of this identity had ended: what a connection does with the lists it was handed reaches the store\'s own table'
    finally:
        loop.close()
        asyncio.set_event_loop(None)
        for i_, r_ in t0.items():          # the rest of the case goes on with the table as configured
            if i_ in t and isinstance(t[i_], dict):
                for k_ in ('pubchans', 'subchans'):
                    if isinstance(r_.get(k_), list) and isinstance(t[i_].get(k_), list) and t[i_][k_] != r_[k_]:
                        t[i_][k_][:] = r_[k_]


def table_case(res, drv, tmp, k, t, t2, idents, idents2, empty_reload):
    """memory / json / sqlite / multi built from table `t` (second multi member and the reload target: `t2`)"""
    script = {'table': t, 'table2': t2, 'empty_reload': empty_reload}
    if drv is not None:
        drv.ask('s.reset')
        model_table(drv, 1, t)
        model_table(drv, 2, t2)
    mem = MEM.Authenticator(t)
    path = os.path.join(tmp, 'users%d.json' % k)
    with open(path, 'w') as f:
        json.dump(t, f)
    js = JS.Authenticator(path)
    js.load()
    import contextlib, io
    with contextlib.redirect_stdout(io.StringIO()):
        sq = SQL.Authenticator(':memory:')
    sqlite_ok = True
    def column(lst, salt):
        # an identity configured WITHOUT a channel list: the column holds '[]', or was left out of the INSERT (NULL),
        # or is blank - which of the three is a deterministic function of the ident (so that a script replays)
        if lst:
            return json.dumps(lst)
        return ('[]', None, '')[(len(ident) + salt) % 3]
    for ident, r in t.items():
        sq.sql.execute('insert into authkeys (owner, ident, secret, pubchans, subchans) values (?,?,?,?,?)',
                       (r['owner'], ident, r['secret'], column(r['pubchans'], 0), column(r['subchans'], 1)))
    mem2 = MEM.Authenticator(t2)
    m12, m21 = MULTI.Authenticator(), MULTI.Authenticator()
    m12.add(mem), m12.add(mem2)
    m21.add(mem2), m21.add(mem)
    for ident in idents:
        res.evaluations += 1
        sc = dict(script, lookup=ident)
        for kind, store in (('memory', mem), ('json', js), ('sqlite', sq)):
            try:
                got = store.get_authkey(ident)
            except Exception as e:
                res.violation('C17', 'lookup-raises', '%s store raised %r for look-up %r' % (kind, e, ident), sc)
                continue
            if got and got.get('ident') != ident:
                res.violation('C17', 'wrong-ident-field', '%s store returned ident %r for look-up %r' % (kind, got.get('ident'), ident), sc)
            monitor(res, store, kind, t, ident, got, sc)
            if drv is not None:
                mo = drv.ask('s.table 1 %s' % hexin(b_(ident)))
                if mo != rec_str(got):
                    res.disagree('%s look-up' % kind, sc, rec_str(got), mo)
            res.note('lookup.%s.%s' % (kind, 'hit' if got else 'miss'))
        for kind, store, order, first, second in (('multi12', m12, '1,2', t, t2), ('multi21', m21, '2,1', t2, t)):
            got = store.get_authkey(ident)
            want = first.get(ident) or second.get(ident)
            if (got or None) and not want or (want and not got) or (got and want and any(got[x] != want[x] for x in want)):
                res.violation('C17', 'multi-first', 'stacked store (%s) returned %r for %r, the first member that knows it has %r' % (order, got, ident, want), sc)
            if drv is not None:
                mo = drv.ask('s.multi %s %s' % (order, hexin(b_(ident))))
                if mo != rec_str(got):
                    res.disagree('multi look-up', sc, rec_str(got), mo)
        res.nontriv(['tbl', sorted(t), ident])
    # ---------------- what a broker session on the store leaves behind: a connection authenticates as a configured
    # identity, subscribes, and goes away - the store still answers exactly what is configured (the stores hand out
    # their own list objects; what a connection does with "its" lists must not reach the table)
    session_on_store(res, (('memory', mem), ('json', js)), t, script)
    # ---------------- a stacked store whose FRONT member learns identities while the stack is in use (an override
    # added to the store in front of the one that has answered so far): every look-up is answered by the first member
    # that knows the identity NOW, whatever the stack answered before
    front = {}
    m3 = MULTI.Authenticator()
    m3.add(MEM.Authenticator(front)), m3.add(mem2)
    for phase in ('before', 'after'):
        for ident in idents:
            res.evaluations += 1
            try:
                got = m3.get_authkey(ident)
            except Exception as e:
                res.violation('C17', 'lookup-raises', 'stacked store raised %r for look-up %r' % (e, ident), dict(script, lookup=ident))
                continue
            want = front.get(ident) or t2.get(ident)
            if (got or None) and not want or (want and not got) or (got and want and any(got[x] != want[x] for x in want)):
                res.violation('C17', 'multi-first', 'stacked store whose front member was given its identities %s the first round of look-ups returned %r for %r; the first member that knows it now has %r' % (phase, got, ident, want), dict(script, lookup=ident, phase=phase))
        front.update({i: dict(r) for i, r in t.items()})
        res.note('multi.front-member-updated')
    # ---------------- the JSON store RECONFIGURED: the file now holds table 2 (every fourth time: nobody) and is
    # reloaded; it must answer exactly what is configured NOW - also for the identities it knew before
    t3 = {} if empty_reload else t2
    with open(path, 'w') as f:
        json.dump(t3, f)
    js.load()
    for ident in sorted(set(idents2) | set(t)):
        res.evaluations += 1
        sc = dict(script, table2=t3, reloaded=True, lookup=ident)
        try:
            got = js.get_authkey(ident)
        except Exception as e:
            res.violation('C17', 'lookup-raises', 'json store (reloaded) raised %r for look-up %r' % (e, ident), sc)
            continue
        monitor(res, js, 'json', t3, ident, got, sc)
        if drv is not None and t3 is t2:
            mo = drv.ask('s.table 2 %s' % hexin(b_(ident)))
            if mo != rec_str(got):
                res.disagree('json look-up after reload', sc, rec_str(got), mo)
        res.note('lookup.json-reloaded.%s' % ('hit' if got else 'miss'))
    sq._close()


def env_lookups(res, drv, env, te, idents):
    """look-ups on the REAL env store built over `env` (ENV.os is already the shim), judged against table `te`"""
    store = ENV.Authenticator()
    for ident in idents:
        res.evaluations += 1
        sc = {'env': env, 'env_table': te, 'lookup': ident}
        try:
            got = store.get_authkey(ident)
        except Exception as e:
            res.violation('C17', 'lookup-raises', 'env store raised %r for look-up %r' % (e, ident), sc)
            continue
        # spec: case-insensitive by construction
        match = [i for i in te if i.upper() == ident.upper()]
        if match:
            w = dict(te[match[0]])
            if w['owner'] is None:
                w['owner'] = ident
            if not got and w['secret']:
                res.violation('C17', 'configured-not-found', 'env store: configured identity %r (as %r) is not returned' % (match[0], ident), sc)
            elif got:
                for x in ('secret', 'owner', 'pubchans', 'subchans'):
                    if got[x] != w[x]:
                        res.violation('C17', 'wrong-record', 'env store: %r field %s is %r, configured %r' % (ident, x, got[x], w[x]), sc)
                if '' in got['pubchans'] or '' in got['subchans']:
                    res.violation('C17', 'env-empty-channel-grant', "env store: identity %r is granted the channel named ''" % ident, sc, )
        elif got:
            res.violation('C17', 'unknown-found', 'env store: unconfigured identity %r returns %r' % (ident, got), sc)
        if drv is not None:
            mo = drv.ask('s.envlookup %s %s' % (hexin(b_(ident)), hexin(b_(ident.upper()))))
            if mo != rec_str(got):
                res.disagree('env look-up', sc, rec_str(got), mo)
        res.note('lookup.env.%s' % ('hit' if got else 'miss'))
        res.nontriv(['env', sorted(env), ident])


def run(tier, seed, drv):
    res = Result('stores')
    res.model_used = drv is not None
    rng = random.Random('stores-%s' % seed)
    n = {'quick': 60, 'thorough': 800}[tier]
    tmp = tempfile.mkdtemp(prefix='verif_stores_')
    try:
        for k in range(n):
            # ---------------- memory / json / sqlite / multi on the same table
            t = gen_table(rng)
            t2 = gen_table(rng)
            empty_reload = (k % 4 == 1)
            table_case(res, drv, tmp, k, t, t2, lookups(rng, t), lookups(rng, {} if empty_reload else t2), empty_reload)
            res.sample({'table': {i: r for i, r in list(t.items())[:2]}, 'lookups': lookups(rng, t)[:6]}, limit=3)
            # ---------------- environment store
            te = gen_table(rng, env_safe=True)
            env = {}
            for ident, r in te.items():
                U = ident.upper()
                env['HPFEEDS_%s_SECRET' % U] = r['secret']
                if rng.random() < 0.7:
                    env['HPFEEDS_%s_OWNER' % U] = r['owner']
                else:
                    r['owner'] = None  # defaults to the look-up string
                # channels containing a comma or empty cannot be expressed in the comma-separated variable
                r['pubchans'] = [c for c in r['pubchans'] if ',' not in c and c]
                r['subchans'] = [c for c in r['subchans'] if ',' not in c and c]
                mode = rng.random()
                if r['pubchans'] or mode < 0.5:
                    env['HPFEEDS_%s_PUBCHANS' % U] = ','.join(r['pubchans'])
                if r['subchans'] or mode < 0.5:
                    env['HPFEEDS_%s_SUBCHANS' % U] = ','.join(r['subchans'])
            real_os = ENV.os
            ENV.os = EnvShim(env)
            try:
                if drv is not None:
                    drv.ask('s.reset')
                    for kk, vv in env.items():
                        drv.ask('s.env %s %s' % (hexin(b_(kk)), hexin(b_(vv))))
                env_lookups(res, drv, env, te, lookups(rng, te))
            finally:
                ENV.os = real_os
        # ---------------- scripts.broker.get_authenticator wiring
        import hpfeeds.scripts.broker as SB
        compat.check_repo_origin(SB)
        cwd = os.getcwd()
        os.chdir(tmp)
        try:
            p = os.path.join(tmp, 'wire.json')
            json.dump({'w': {'owner': 'o', 'secret': 's', 'pubchans': [], 'subchans': []}}, open(p, 'w'))
            for arg, cls in ((p, JS.Authenticator), ('env', ENV.Authenticator), ('sqlite', SQL.Authenticator), ('whatever.db', SQL.Authenticator)):
                res.evaluations += 1
                import contextlib, io
                with contextlib.redirect_stdout(io.StringIO()):
                    a = SB.get_authenticator(arg)
                if not isinstance(a, cls):
                    res.violation('C17', 'wiring', 'get_authenticator(%r) built %r' % (arg, type(a)), {'arg': arg})
            # ---------------- scripts.broker.main(): which stores the command line puts into the stack, in which order.
            # The working directory holds a LEFT-OVER ./sqlite.db (identities `legacy` and `w`); the environment
            # configures `w` with another secret.  `--auth env` must not consult the left-over file at all.
            import sqlite3 as _sq
            import types as _types
            with contextlib.redirect_stdout(io.StringIO()):
                left = SQL.Authenticator('sqlite.db')
            for ident_, sec_ in (('legacy', 'old'), ('w', 'from-sqlite')):
                left.sql.execute('insert into authkeys (owner, ident, secret, pubchans, subchans) values (?,?,?,?,?)',
                                 ('o', ident_, sec_, '["c1"]', '["c1"]'))
            left.sql.commit()
            left.sql.close()
            captured = {}

            class _Srv(object):
                def __init__(self, auth=None, exporter=None, name=None, **kw):
                    captured['auth'] = auth

                def add_endpoint_legacy(self, *a, **k):
                    pass

                def add_endpoint_str(self, *a, **k):
                    pass

                async def serve_forever(self):
                    return None
            saved = (SB.Server, SB.aiorun, sys.argv)
            envkeys = {'HPFEEDS_W_SECRET': 'from-env', 'HPFEEDS_W_OWNER': 'o', 'HPFEEDS_W_PUBCHANS': 'c2', 'HPFEEDS_W_SUBCHANS': 'c2'}
            os.environ.update(envkeys)
            try:
                SB.Server = _Srv
                SB.aiorun = _types.SimpleNamespace(run=lambda coro: coro.close())
                for argv, expect in (
                        (['--auth', 'env'], {'legacy': None, 'w': 'from-env'}),
                        ([], {'legacy': 'old', 'w': 'from-sqlite'}),
                        (['--auth', 'env', '--auth', 'sqlite'], {'legacy': 'old', 'w': 'from-env'}),
                        (['--auth', 'sqlite', '--auth', 'env'], {'legacy': 'old', 'w': 'from-sqlite'})):
                    res.evaluations += 1
                    sys.argv = ['hpfeeds-broker'] + argv
                    captured.clear()
                    try:
                        with contextlib.redirect_stdout(io.StringIO()):
                            SB.main()
                    except SystemExit:
                        pass
                    a = captured.get('auth')
                    if a is None:
                        res.violation('C17', 'wiring-main', 'scripts.broker.main() with %r built no broker' % (argv,), {'argv': argv})
                        continue
                    for ident_, want in expect.items():
                        got = a.get_authkey(ident_)
                        gs = got.get('secret') if got else None
                        if gs != want:
                            res.violation('C17', 'wiring-main', 'broker started with %r (a left-over ./sqlite.db in the working directory): identity %r is answered with secret %r, expected %r - the stack does not consist of exactly the stores named on the command line, in that order' % (argv, ident_, gs, want), {'argv': argv, 'lookup': ident_})
                    res.note('wiring.main')
                # the same two-store command lines in FRESH interpreters with different string-hash seeds: an order that
                # comes out of a set / dict of store names is per-process luck, so one process proves nothing
                import subprocess as _sp
                child = (
                    "import sys, os, io, json, types, contextlib\n"
                    "sys.path.insert(0, %r)\n"
                    "import compat\n"
                    "import hpfeeds.scripts.broker as SB\n"
                    "cap = {}\n"
                    "class S(object):\n"
                    "    def __init__(self, auth=None, exporter=None, name=None, **kw): cap['a'] = auth\n"
                    "    def add_endpoint_legacy(self, *a, **k): pass\n"
                    "    def add_endpoint_str(self, *a, **k): pass\n"
                    "    async def serve_forever(self): return None\n"
                    "SB.Server = S\n"
                    "SB.aiorun = types.SimpleNamespace(run=lambda c: c.close())\n"
                    "out = {}\n"
                    "for argv in (['--auth', 'env', '--auth', 'sqlite'], ['--auth', 'sqlite', '--auth', 'env']):\n"
                    "    sys.argv = ['b'] + argv\n"
                    "    cap.clear()\n"
                    "    try:\n"
                    "        with contextlib.redirect_stdout(io.StringIO()):\n"
                    "            SB.main()\n"
                    "    except SystemExit:\n"
                    "        pass\n"
                    "    g = cap['a'].get_authkey('w') if cap.get('a') is not None else None\n"
                    "    out[argv[1]] = g.get('secret') if g else None\n"
                    "print('RESULT ' + json.dumps(out))\n") % os.path.dirname(os.path.dirname(os.path.abspath(__file__)))
                for hs in ('1', '2', '3', '5'):
                    res.evaluations += 1
                    try:
                        r_ = _sp.run([sys.executable, '-c', child], cwd=tmp, capture_output=True, text=True, timeout=60,
                                     env=dict(os.environ, PYTHONHASHSEED=hs))
                        line = [l for l in r_.stdout.splitlines() if l.startswith('RESULT ')]
                        got_ = json.loads(line[-1][7:]) if line else None
                    except Exception:
                        got_ = None
                    if got_ is None:
                        res.note('wiring.main.subprocess-failed')
                        continue
                    res.note('wiring.main.fresh-interpreter')
                    want_ = {'env': 'from-env', 'sqlite': 'from-sqlite'}
                    if got_ != want_:
                        res.violation('C17', 'wiring-main', 'broker started in a fresh interpreter (PYTHONHASHSEED=%s) with two stores that both know identity \'w\': first-named store -> answering secret is %r, expected %r - the stack is not in command-line order' % (hs, got_, want_), {'argv': 'two stores, both orders', 'hashseed': hs})
            finally:
                SB.Server, SB.aiorun, sys.argv = saved
                for k_ in envkeys:
                    os.environ.pop(k_, None)
        finally:
            os.chdir(cwd)
    finally:
        import shutil
        shutil.rmtree(tmp, ignore_errors=True)
    res.assumptions += [
        'sqlite3, json and the os.environ mapping are the real engines (modelled as table look-ups); the environment is a patched mapping, so only names a real environment accepts (no NUL, no "=") are configured',
        'str.upper() is applied by Python; the model receives the upper-cased look-up string',
        'identities in one environment are distinct after upper-casing; channel names in environment variables contain no comma',
    ]
    return res


def replay(script, drv):
    res = Result('stores')
    tmp = tempfile.mkdtemp(prefix='verif_stores_')
    try:
        if 'env' in script:
            real_os = ENV.os
            ENV.os = EnvShim(script['env'])
            try:
                if drv is not None:
                    drv.ask('s.reset')
                    for kk, vv in script['env'].items():
                        drv.ask('s.env %s %s' % (hexin(b_(kk)), hexin(b_(vv))))
                te = script.get('env_table') or {}
                env_lookups(res, drv, script['env'], te, sorted(set([script['lookup']]) | set(te)))
            finally:
                ENV.os = real_os
        elif 'table' in script:
            t, t2 = script['table'], script['table2']
            ids = sorted(set([script['lookup']]) | set(t) | set(t2))
            table_case(res, drv, tmp, 0, t, t2, ids, ids, bool(script.get('empty_reload') or (script.get('reloaded') and not script['table2'])))
    finally:
        import shutil
        shutil.rmtree(tmp, ignore_errors=True)
    return res
