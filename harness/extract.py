"""Regenerate lean/Hpfeeds/Extracted.lean from the CURRENT hpfeeds/protocol.py (translator part of
the tie).  Runs the import in a subprocess so a broken module cannot take the harness down."""
import hashlib
import json
import os
import subprocess
import sys

HERE = os.path.dirname(os.path.abspath(__file__))
VERIF = os.path.dirname(HERE)
TARGET = os.path.join(VERIF, 'lean', 'Hpfeeds', 'Extracted.lean')

MODELLED_FILES = [
    'hpfeeds/protocol.py', 'hpfeeds/exceptions.py', 'hpfeeds/broker/server.py', 'hpfeeds/broker/connection.py',
    'hpfeeds/asyncio/protocol.py', 'hpfeeds/asyncio/client.py', 'hpfeeds/blocking/protocol.py',
    'hpfeeds/blocking/reactor.py', 'hpfeeds/blocking/session.py', 'hpfeeds/blocking/queue.py',
    'hpfeeds/twisted/protocol.py', 'hpfeeds/twisted/service.py', 'hpfeeds/client.py',
    'hpfeeds/broker/auth/env.py', 'hpfeeds/broker/auth/json.py', 'hpfeeds/broker/auth/memory.py',
    'hpfeeds/broker/auth/multi.py', 'hpfeeds/broker/auth/sqlite.py', 'hpfeeds/scripts/broker.py',
    'hpfeeds/broker/prometheus.py',
]

SNIPPET = r'''
import json, sys
sys.path.insert(0, sys.argv[1])
import hpfeeds.protocol as p
import os
assert os.path.abspath(p.__file__).startswith(os.path.abspath(sys.argv[1]) + os.sep), p.__file__
out = {k: getattr(p, k) for k in ('OP_ERROR','OP_INFO','OP_AUTH','OP_PUBLISH','OP_SUBSCRIBE','OP_UNSUBSCRIBE','MAXBUF','BUFSIZ')}
out['SIZES'] = sorted((int(k), int(v)) for k, v in p.SIZES.items())
for k, v in out.items():
    if k != 'SIZES':
        assert isinstance(v, int) and not isinstance(v, bool) and v >= 0, (k, v)

# ---- literals buried in function bodies, read off the syntax tree (no import: the broker modules need shims).
# Every pattern degrades gracefully: when the code has been restructured so that the literal is not where it is
# looked for, the constant is reported as not extracted, the model keeps its default and the correspondence run
# (which observes the instant of the deadline close, the buffer limit and the read size exactly) pins it instead.
import ast

def _tree(rel):
    try:
        return ast.parse(open(os.path.join(sys.argv[1], rel)).read())
    except Exception:
        return None

def _num(node, tree):
    if isinstance(node, ast.Constant) and isinstance(node.value, (int, float)) and not isinstance(node.value, bool):
        return node.value
    if isinstance(node, ast.Name) and tree is not None:      # a module-level NAME = <number>
        for st in tree.body:
            if isinstance(st, ast.Assign) and len(st.targets) == 1 and isinstance(st.targets[0], ast.Name) \
                    and st.targets[0].id == node.id:
                return _num(st.value, None)
    return None

def _cls(tree, name):
    if tree is None:
        return None
    for st in tree.body:
        if isinstance(st, ast.ClassDef) and st.name == name:
            return st
    return None

def _method(cls, name):
    if cls is None:
        return None
    for st in cls.body:
        if isinstance(st, (ast.FunctionDef, ast.AsyncFunctionDef)) and st.name == name:
            return st
    return None

def grace_ms():
    t = _tree('hpfeeds/broker/connection.py')
    m = _method(_cls(t, 'Connection'), 'pause_writing')
    if m is None:
        return None
    vals = []
    for n in ast.walk(m):
        if isinstance(n, ast.Call) and isinstance(n.func, ast.Attribute) and n.func.attr == 'sleep' and n.args:
            v = _num(n.args[0], t)
            if v is not None:
                vals.append(v)
    if len(vals) == 1 and vals[0] >= 0 and float(vals[0] * 1000).is_integer():
        return int(vals[0] * 1000)
    return None

def high_water_factor():
    t = _tree('hpfeeds/broker/connection.py')
    c = _cls(t, 'Connection')
    if c is None:
        return None
    for fn in c.body:
        if not isinstance(fn, (ast.FunctionDef, ast.AsyncFunctionDef)):
            continue
        for n in ast.walk(fn):
            if isinstance(n, ast.Call) and isinstance(n.func, ast.Attribute) and n.func.attr == 'set_write_buffer_limits':
                hv = [k.value for k in n.keywords if k.arg == 'high']
                if len(hv) != 1:
                    return None
                e = hv[0]
                if isinstance(e, ast.Name):
                    defs = [a.value for a in ast.walk(fn) if isinstance(a, ast.Assign) and len(a.targets) == 1
                            and isinstance(a.targets[0], ast.Name) and a.targets[0].id == e.id]
                    if len(defs) != 1:
                        return None
                    e = defs[0]
                if isinstance(e, ast.BinOp) and isinstance(e.op, ast.Mult):
                    for a, b in ((e.left, e.right), (e.right, e.left)):
                        if isinstance(a, ast.Subscript) and isinstance(a.value, ast.Name) and a.value.id == 'SIZES' \
                                and 'OP_PUBLISH' in ast.dump(a.slice):
                            v = _num(b, t)
                            if isinstance(v, int) and v > 0:
                                return v
                return None
    return None

def reactor_recv():
    t = _tree('hpfeeds/blocking/reactor.py')
    if t is None:
        return None
    vals = []
    for n in ast.walk(t):
        if isinstance(n, ast.Call) and isinstance(n.func, ast.Attribute) and n.func.attr == 'recv' and n.args:
            v = _num(n.args[0], t)
            if isinstance(v, int) and v > 0:
                vals.append(v)
    return vals[0] if len(set(vals)) == 1 else None

# ---- the opcode -> (field reader, handler) dispatch tables of the three protocol base classes (C16), read off the if/elif
# chain of message_received / messageReceived.  Handler names are canonicalised (on_info / onInfo -> oninfo).
DEFAULT_DISPATCH = [[0, 'readerror', 'onerror', 0], [1, 'readinfo', 'oninfo', 1], [2, 'readauth', 'onauth', 1],
                    [3, 'readpublish', 'onpublish', 1], [4, 'readsubscribe', 'onsubscribe', 1], [5, 'readunsubscribe', 'onunsubscribe', 1]]

def dispatch_table(rel, method_names):
    t = _tree(rel)
    c = _cls(t, 'BaseProtocol')
    m = None
    for nm in method_names:
        m = m or _method(c, nm)
    if m is None:
        return None
    opn, rows = m.args.args[1].arg if len(m.args.args) > 1 else None, []
    node = next((st for st in m.body if isinstance(st, ast.If)), None)
    while node is not None:
        tst = node.test
        if not (isinstance(tst, ast.Compare) and len(tst.ops) == 1 and isinstance(tst.ops[0], ast.Eq)
                and isinstance(tst.left, ast.Name) and tst.left.id == opn and isinstance(tst.comparators[0], ast.Name)):
            return None
        opname = tst.comparators[0].id
        if opname not in out or len(node.body) != 1 or not isinstance(node.body[0], ast.Return):
            return None
        call = node.body[0].value
        if not (isinstance(call, ast.Call) and isinstance(call.func, ast.Attribute) and isinstance(call.func.value, ast.Name)
                and call.func.value.id == 'self' and len(call.args) == 1 and not call.keywords):
            return None
        arg, star = call.args[0], 0
        if isinstance(arg, ast.Starred):
            arg, star = arg.value, 1
        if not (isinstance(arg, ast.Call) and isinstance(arg.func, ast.Name) and len(arg.args) == 1):
            return None
        rows.append([out[opname], arg.func.id, call.func.attr.replace('_', '').lower(), star])
        nxt = node.orelse
        node = nxt[0] if len(nxt) == 1 and isinstance(nxt[0], ast.If) else None
        if nxt and node is None:
            return None
    return rows or None

disp = {}
for key, rel, names in (('AIO', 'hpfeeds/asyncio/protocol.py', ('message_received',)),
                        ('BLK', 'hpfeeds/blocking/protocol.py', ('message_received',)),
                        ('TW', 'hpfeeds/twisted/protocol.py', ('messageReceived', 'message_received'))):
    try:
        v = dispatch_table(rel, names)
    except Exception:
        v = None
    disp[key] = {'value': v if v is not None else DEFAULT_DISPATCH, 'extracted': v is not None}
out['DISPATCH'] = disp

lit = {}
for name, fn, default in (('GRACE_MS', grace_ms, 60000), ('HIGH_WATER_FACTOR', high_water_factor, 50), ('REACTOR_RECV', reactor_recv, 1024)):
    try:
        v = fn()
    except Exception:
        v = None
    lit[name] = {'value': default if v is None else v, 'extracted': v is not None}
out['LITERALS'] = lit
print(json.dumps(out))
'''


def source_hashes(root):
    h = {}
    for f in MODELLED_FILES:
        try:
            h[f] = hashlib.sha256(open(os.path.join(root, f), 'rb').read()).hexdigest()[:16]
        except OSError:
            h[f] = 'missing'
    return h


def extract(root=None):
    """returns (ok, info). Writes Extracted.lean only when its text changes."""
    root = root or os.environ.get('VERIF_REPO_ROOT', '/repo')
    try:
        r = subprocess.run(['/venv/bin/python', '-c', SNIPPET, root], capture_output=True, text=True, timeout=60)
    except Exception as e:  # pragma: no cover
        return False, {'error': repr(e)}
    if r.returncode != 0:
        return False, {'error': r.stderr[-2000:]}
    c = json.loads(r.stdout)
    lines = ['-- GENERATED by harness/extract.py from hpfeeds/protocol.py -- do not edit',
             'namespace Hpfeeds.Extracted']
    for k in ('OP_ERROR', 'OP_INFO', 'OP_AUTH', 'OP_PUBLISH', 'OP_SUBSCRIBE', 'OP_UNSUBSCRIBE', 'MAXBUF', 'BUFSIZ'):
        lines.append('def %s : Nat := %d' % (k, c[k]))
    lines.append('def SIZES : List (Nat × Nat) := [%s]' % ', '.join('(%d, %d)' % (k, v) for k, v in c['SIZES']))
    lines.append('-- literals read off the syntax tree of broker/connection.py and blocking/reactor.py (default when the pattern is not found)')
    for k in ('GRACE_MS', 'HIGH_WATER_FACTOR', 'REACTOR_RECV'):
        lines.append('def %s : Nat := %d   -- %s' % (k, c['LITERALS'][k]['value'], 'extracted' if c['LITERALS'][k]['extracted'] else 'DEFAULT (not found in the source)'))
    lines.append('-- opcode -> (field reader, canonical handler name, called with *fields) of the three BaseProtocol classes, read off the')
    lines.append('-- if/elif chain of message_received / messageReceived (default table when the chain has another shape)')
    for k in ('AIO', 'BLK', 'TW'):
        d = c['DISPATCH'][k]
        lines.append('def DISPATCH_%s : List (Nat × String × String × Nat) := [%s]   -- %s' % (
            k, ', '.join('(%d, "%s", "%s", %d)' % tuple(r) for r in d['value']), 'extracted' if d['extracted'] else 'DEFAULT (shape not recognised)'))
    lines.append('end Hpfeeds.Extracted')
    text = '\n'.join(lines) + '\n'
    old = None
    try:
        old = open(TARGET).read()
    except OSError:
        pass
    if old != text:
        with open(TARGET, 'w') as f:
            f.write(text)
    return True, {'constants': c, 'changed': old != text, 'sources': source_hashes(root)}


if __name__ == '__main__':
    ok, info = extract()
    print(json.dumps(info, indent=1))
    sys.exit(0 if ok else 1)
