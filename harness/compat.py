"""Import shims + repo root selection.  Import this module before anything from hpfeeds.

The pinned interpreter is Python 3.12; three third-party/pinned modules need attributes that were
removed from the standard library.  The shims live in the harness process only (no repo hook)."""
import os
import sys
import types
import inspect
import asyncio
import asyncio.coroutines

REPO_ROOT = os.environ.get('VERIF_REPO_ROOT', '/repo')
if REPO_ROOT in sys.path:
    sys.path.remove(REPO_ROOT)
sys.path.insert(0, REPO_ROOT)

if not hasattr(inspect, 'formatargspec'):
    inspect.formatargspec = lambda *a, **k: '()'          # wrapt 1.10.11
if not hasattr(asyncio.coroutines, '_DEBUG'):
    asyncio.coroutines._DEBUG = False                      # aiohttp 3.6.2
if not hasattr(asyncio, 'coroutine'):
    asyncio.coroutine = types.coroutine                    # hpfeeds/twisted/service.py

VERIF_ROOT = os.path.dirname(os.path.dirname(os.path.abspath(__file__)))


def check_repo_origin(mod):
    f = os.path.abspath(getattr(mod, '__file__', '') or '')
    if not f.startswith(os.path.abspath(REPO_ROOT) + os.sep):
        raise RuntimeError('module %s loaded from %s, not from %s' % (mod.__name__, f, REPO_ROOT))
