"""Import shims + repo root selection.  Import this module before anything from hpfeeds.

The pinned interpreter is Python 3.12; three third-party/pinned modules need attributes that were
removed from the standard library.  The shims live in the harness process only (no repo hook)."""
import os
import sys
import types
import inspect
import asyncio
import asyncio.coroutines

REPO_ROOT = os.environ.get('VERIF_REPO_ROOT', '/repo')
if REPO_ROOT in sys.path:
    sys.path.remove(REPO_ROOT)
sys.path.insert(0, REPO_ROOT)

if not hasattr(inspect, 'formatargspec'):
    inspect.formatargspec = lambda *a, **k: '()'          # wrapt 1.10.11
if not hasattr(asyncio.coroutines, '_DEBUG'):
    asyncio.coroutines._DEBUG = False                      # aiohttp 3.6.2
if not hasattr(asyncio, 'coroutine'):
    asyncio.coroutine = types.coroutine                    # hpfeeds/twisted/service.py

VERIF_ROOT = os.path.dirname(os.path.dirname(os.path.abspath(__file__)))


def check_repo_origin(mod):
    f = os.path.abspath(getattr(mod, '__file__', '') or '')
    if not f.startswith(os.path.abspath(REPO_ROOT) + os.sep):
        raise RuntimeError('module %s loaded from %s, not from %s' % (mod.__name__, f, REPO_ROOT))


# ---------------------------------------------------------------------------------------------------------------
# Byte accounting for the stream decoder, independent of its internal layout.  The engines used to read
# `len(unpacker.buf)`; a behaviour-preserving rewrite of the decoder's internals (a read offset, a deque of chunks …)
# would then be reported as a difference although no property is affected.  Instead the harness counts, per Unpacker
# instance, the bytes fed and the bytes of the frames it has yielded (5 + len(body) each): `unconsumed(u)` is what a
# correct decoder must still be holding (C07.consumed).  `footprint(u)` is what it really holds (every bytes-like
# attribute), for the two clauses that ARE about the buffer: C06 "only the bytes of a trailing incomplete frame
# remain buffered" and C07 "never buffers more than one maximal frame plus one chunk".
def _instrument_unpacker():
    import hpfeeds.protocol as P
    check_repo_origin(P)
    U = P.Unpacker
    if getattr(U, '_verif_instrumented', False):
        return
    orig_feed, orig_iter, orig_reset = U.feed, U.__iter__, U.reset

    def counted(u, fn):
        """run one frame-yielding call; count the frame at the OUTERMOST such call only (pop inside unpack inside
        __next__ inside a generator's __next__ is one frame)"""
        d = u.__dict__
        depth = d.get('_verif_depth', 0)
        d['_verif_depth'] = depth + 1
        try:
            item = fn()
        finally:
            d['_verif_depth'] = depth
        if depth == 0:
            try:
                d['_verif_consumed'] = d.get('_verif_consumed', 0) + 5 + len(item[1])
            except Exception:
                pass
        return item

    def wrap(name):
        orig = U.__dict__.get(name)
        if orig is None or not callable(orig):
            return

        def method(self, *a, **k):
            return counted(self, lambda: orig(self, *a, **k))
        method.__name__ = name
        setattr(U, name, method)

    for name in ('__next__', 'next', 'unpack', 'pop'):
        wrap(name)

    class _Counting(object):
        def __init__(self, u, it):
            self.u, self.it = u, it

        def __iter__(self):
            return self

        def __next__(self):
            return counted(self.u, lambda: next(self.it))

    def feed(self, data):
        self.__dict__['_verif_fed'] = self.__dict__.get('_verif_fed', 0) + len(data)
        return orig_feed(self, data)

    def __iter__(self):
        it = orig_iter(self)
        if it is self:
            return self         # stepped through the (wrapped) __next__ of the class
        return _Counting(self, it)

    def reset(self):
        self.__dict__['_verif_fed'] = 0
        self.__dict__['_verif_consumed'] = 0
        return orig_reset(self)

    U.feed, U.__iter__, U.reset = feed, __iter__, reset
    U._verif_instrumented = True


def unconsumed(u):
    """bytes fed to this decoder that are not part of a frame it has yielded"""
    return u.__dict__.get('_verif_fed', 0) - u.__dict__.get('_verif_consumed', 0)


def held_buffers(u):
    return [v for k, v in vars(u).items() if isinstance(v, (bytes, bytearray, memoryview)) and not k.startswith('_verif')]


def footprint(u):
    """bytes the decoder really holds (all its bytes-like attributes)"""
    return sum(len(v) for v in held_buffers(u))


_instrument_unpacker()
