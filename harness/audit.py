"""Audit of the Lean sources: forbidden constructs, and `#print axioms` for every property theorem."""
import os
import re

from lean_driver import LEAN, lean_run

FORBIDDEN = re.compile(r'\bsorry\b|\badmit\b|^axiom\s|\bnative_decide\b|\bbv_decide\b|implemented_by|\bunsafe\s|maxHeartbeats\s+0\b|\bextern\b', re.M)
ALLOWED_AXIOMS = {'propext', 'Classical.choice', 'Quot.sound'}


def strip_comments(src):
    # nested /- -/ comments and -- line comments
    out, i, depth = [], 0, 0
    while i < len(src):
        if src.startswith('/-', i):
            depth += 1
            i += 2
        elif src.startswith('-/', i) and depth:
            depth -= 1
            i += 2
        elif depth:
            if src[i] == '\n':
                out.append('\n')
            i += 1
        elif src.startswith('--', i):
            j = src.find('\n', i)
            i = len(src) if j < 0 else j
        else:
            out.append(src[i])
            i += 1
    return ''.join(out)


def lean_sources():
    res = []
    for sub in ('Hpfeeds', 'Driver'):
        for d, _, fs in os.walk(os.path.join(LEAN, sub)):
            for f in fs:
                if f.endswith('.lean'):
                    res.append(os.path.join(d, f))
    res.append(os.path.join(LEAN, 'Hpfeeds.lean'))
    return sorted(res)


def grep_forbidden():
    hits = []
    for p in lean_sources():
        src = strip_comments(open(p).read())
        for m in FORBIDDEN.finditer(src):
            line = src.count('\n', 0, m.start()) + 1
            hits.append('%s:%d: %s' % (os.path.relpath(p, LEAN), line, m.group(0).strip()))
    return hits


def theorems_of(prop_file):
    """fully qualified names of the theorems declared in a Props file"""
    src = strip_comments(open(prop_file).read())
    ns = []
    names = []
    for line in src.splitlines():
        m = re.match(r'\s*namespace\s+(\S+)', line)
        if m:
            ns.append(m.group(1))
            continue
        m = re.match(r'\s*end\s+(\S+)', line)
        if m and ns and ns[-1] == m.group(1):
            ns.pop()
            continue
        m = re.match(r'\s*(?:private\s+|protected\s+)?theorem\s+([^\s:({\[]+)', line)
        if m:
            names.append('.'.join(ns + [m.group(1)]))
    return names


def print_axioms(prop_id, module, names):
    """returns {name: [axioms]} (None for a name Lean does not know)"""
    path = os.path.join(LEAN, '.lake', 'Audit_%s.lean' % prop_id)
    os.makedirs(os.path.dirname(path), exist_ok=True)
    with open(path, 'w') as f:
        f.write('import %s\n' % module)
        for n in names:
            f.write('#print axioms %s\n' % n)
    rc, out = lean_run(path)
    res = {n: None for n in names}
    # messages look like:  'X' depends on axioms: [a, b]   |   'X' does not depend on any axioms
    for m in re.finditer(r"'([^']+)' depends on axioms: \[([^\]]*)\]", out.replace('\n', ' ')):
        res[m.group(1)] = [a.strip() for a in m.group(2).split(',') if a.strip()]
    for m in re.finditer(r"'([^']+)' does not depend on any axioms", out):
        res[m.group(1)] = []
    return res, out
