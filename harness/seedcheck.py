"""Evaluate one seeded change:  seedcheck.py <dir with patch.diff, demo.py, meta.json> <prop> [more props...]

1. in a scratch worktree of /repo (under /tmp): the patch applies, the 70-test suite still passes with it,
   the demonstration fails with it and passes without it;
2. apply the patch to /repo, run ./check <prop> quick for each property given, undo it straight afterwards;
3. print a JSON summary (also written to <dir>/result.json).
Nothing is ever committed to /repo."""
import json
import os
import subprocess
import sys
import tempfile

VERIF = os.path.dirname(os.path.dirname(os.path.abspath(__file__)))
REPO = os.environ.get('SEED_REPO', '/repo')   # a clone of /repo may be used so that /repo itself stays free for other work


def sh(cmd, cwd=None, env=None, timeout=1800):
    r = subprocess.run(cmd, shell=True, cwd=cwd, env=env, capture_output=True, text=True, timeout=timeout)
    return r.returncode, (r.stdout + r.stderr)


def main():
    d = os.path.abspath(sys.argv[1])
    props = sys.argv[2:]
    tier = os.environ.get('SEED_TIER', 'quick')
    patch = os.path.join(d, 'patch.diff')
    demo = os.path.join(d, 'demo.py')
    res = {'dir': d, 'props': props}
    assert sh('git -C %s status --porcelain --untracked-files=no' % REPO)[1].strip() == '', '/repo is dirty'
    wt = tempfile.mkdtemp(prefix='seedwt_', dir='/tmp')
    os.rmdir(wt)
    try:
        rc, out = sh('git -C %s worktree add --detach %s HEAD -q' % (REPO, wt))
        assert rc == 0, out
        env = dict(os.environ, TREE=wt)
        rc0, out0 = sh('/venv/bin/python %s' % demo, cwd=wt, env=env, timeout=600)
        res['demo_clean_rc'] = rc0
        rc, out = sh('git apply %s' % patch, cwd=wt)
        res['applies'] = rc == 0
        if rc != 0:
            res['apply_err'] = out[-500:]
        else:
            rc1, out1 = sh('/venv/bin/python %s' % demo, cwd=wt, env=env, timeout=600)
            res['demo_mutant_rc'] = rc1
            res['demo_mutant_tail'] = out1[-600:]
            rct, outt = sh('/venv/bin/python -m pytest -q -p no:cacheprovider --continue-on-collection-errors 2>&1 | tail -1', cwd=wt)
            res['tests_tail'] = outt.strip()
    finally:
        sh('git -C %s worktree remove --force %s' % (REPO, wt))
    if res.get('applies'):
        try:
            rc, out = sh('git -C %s apply %s' % (REPO, patch))
            assert rc == 0, out
            res['checks'] = {}
            for p in props:
                rc, out = sh('./check %s %s' % (p, tier), cwd=VERIF, timeout=3000, env=dict(os.environ, VERIF_REPO_ROOT=REPO))
                lines = [l for l in out.splitlines() if l.startswith('VIOLATION') or l.startswith('KNOWN') or l.startswith(p + ' ')]
                res['checks'][p] = {'rc': rc, 'lines': lines[-4:]}
                for l in lines:
                    if l.startswith('VIOLATION') and 'replay=' in l:
                        rp = l.split('replay=')[1].split()[0]
                        try:
                            j = json.load(open(os.path.join(VERIF, rp)))
                            res['checks'][p]['replay_kind'] = j.get('kind')
                            res['checks'][p]['replay_what'] = str(j.get('what'))[:400]
                            res['checks'][p]['replay_rule'] = j.get('rule')
                        except Exception as e:
                            res['checks'][p]['replay_err'] = repr(e)
        finally:
            sh('git -C %s checkout -- .' % REPO)
            assert sh('git -C %s status --porcelain --untracked-files=no' % REPO)[1].strip() == ''
    json.dump(res, open(os.path.join(d, 'result.json'), 'w'), indent=1)
    print(json.dumps(res, indent=1))


if __name__ == '__main__':
    main()
