import json
import os

HERE = os.path.dirname(os.path.abspath(__file__))
VERIF = os.path.dirname(HERE)
# selftest runs redirect evidence and replays so that they do not overwrite the evidence of the real tree
OUT = os.environ.get('VERIF_OUT') or VERIF


def write_evidence(prop_id, tier, seed, coverage, assumptions, wall_s, violations):
    os.makedirs(os.path.join(OUT, 'evidence'), exist_ok=True)
    ev = {
        'property_id': prop_id, 'tier': tier, 'seed': int(seed), 'level': 'proof',
        'coverage': coverage, 'assumptions': assumptions, 'wall_s': round(wall_s, 2), 'violations': int(violations),
    }
    path = os.path.join(OUT, 'evidence', '%s.json' % prop_id)
    tmp = path + '.tmp'
    with open(tmp, 'w') as f:
        json.dump(ev, f, indent=1, sort_keys=True, default=str)
    os.replace(tmp, path)
    return path


def write_replay(prop_id, kind, payload):
    os.makedirs(os.path.join(OUT, 'replays'), exist_ok=True)
    import hashlib
    body = json.dumps(payload, sort_keys=True, default=str)
    name = '%s_%s_%s.json' % (prop_id, kind, hashlib.sha1(body.encode()).hexdigest()[:10])
    path = os.path.join(OUT, 'replays', name)
    with open(path, 'w') as f:
        json.dump(payload, f, indent=1, sort_keys=True, default=str)
    return os.path.relpath(path, VERIF) if OUT == VERIF else path
