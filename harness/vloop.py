"""Virtual-time asyncio loop: time() is an integer number of milliseconds / 1000; the harness runs
ready callbacks to quiescence after each script event and jumps the clock to each due timer."""
import asyncio
import heapq


class VirtualLoop(asyncio.SelectorEventLoop):

    def __init__(self):
        super().__init__()
        self._vms = 0
        self._clock_resolution = 1e-6
        self.exceptions = []
        self.set_exception_handler(self._on_exc)

    def _on_exc(self, loop, context):
        self.exceptions.append(context)

    def time(self):
        return self._vms / 1000.0

    @property
    def ms(self):
        return self._vms

    def _next_timer(self):
        while self._scheduled and self._scheduled[0]._cancelled:
            h = heapq.heappop(self._scheduled)
            h._scheduled = False
            self._timer_cancelled_count = max(0, self._timer_cancelled_count - 1)
        return self._scheduled[0]._when if self._scheduled else None

    def run_idle(self, limit=10000):
        """run until nothing is ready and no timer is due now"""
        for _ in range(limit):
            w = self._next_timer()
            if not self._ready and (w is None or w > self.time() + self._clock_resolution):
                return
            self.call_soon(self.stop)
            self.run_forever()
        raise RuntimeError('event loop does not become idle')

    def advance(self, ms):
        target = self._vms + ms
        self.run_idle()
        while True:
            w = self._next_timer()
            if w is None or round(w * 1000) > target:
                break
            self._vms = max(self._vms, int(round(w * 1000)))
            self.run_idle()
        self._vms = target
        self.run_idle()
