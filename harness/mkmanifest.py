"""Regenerate /verif/MANIFEST.json from harness/props.py (run by hand after changing the wiring)."""
import json
import os
import sys

HERE = os.path.dirname(os.path.abspath(__file__))
sys.path.insert(0, HERE)
from props import PROPS  # noqa: E402

VERIF = os.path.dirname(HERE)
props = [json.loads(l) for l in open(os.path.join(VERIF, 'properties.jsonl'))]

BROKER_NOTE = 'Lean kernel + 3 standard axioms; the asyncio transport/event-loop contract is modelled by the event vocabulary (and implemented by the harness fakes); SHA-1, os.urandom, the credential store are parameters of the model; the tie is the correspondence run of this check (online-generated histories on the real Server/Connection vs the model, action logs + registry + gauges compared).'
CLIENTS = 'Lean kernel + 3 standard axioms; asyncio task machinery, Twisted ClientService, the queues and the transports are library code represented by the event vocabulary (scripted attempts, fake transports, virtual time); SHA-1 is a parameter; the tie is the correspondence run of this check on the real session classes.'
TEXT = {
    'C01': ('Theorems over ALL event histories of the broker model: C01.delivery_log (the PUBLISH frames written to a connection are exactly, in order, the accepted publishes listing it as recipient), exactly_entitled (recipients = connections subscribed and open at that moment, once each), publish_exact (what one accepted publish does to every action log), frame_carries, common_order (any two receivers see sub-sequences of one acceptance order). Invariant proof by a generic preservation principle over the model primitives (Lemmas/BrokerPres, BrokerReg, BrokerDeliv). Tie + failing-input search: broker engine with an independent spec-level shadow.', BROKER_NOTE),
    'C03': ('Theorems over ALL histories: C03.accepted_sound / every_delivery_sound (every PUBLISH frame ever written names the ident its sender was authenticated as and a channel on that identity\'s publish list) and reject_publish (any other ident string or channel, in ANY state: ERROR + close for the sender, accepted log / registry / gauges / every other connection unchanged).', BROKER_NOTE),
    'C04': ('Theorems over ALL histories and ALL continuations: C04.granted_only, recipients_granted (every recipient of every accepted publish had passed the subscribe ACL), no_publish_after_close (once closing — for any reason — no PUBLISH is ever written again, whatever the schedule of the closing window), forbidden_subscribe (ERROR + close).', BROKER_NOTE),
    'C02': ('Theorems over ALL histories: C02.first_write_is_info (first action on every connection is OP_INFO with the name and THAT connection\'s nonce), preauth_inert / preauth_receives_nothing / accepted_from_authenticated (an unauthenticated connection holds nothing, is in no registry, is never a recipient; every accepted publish came from an authenticated sender), authenticated_by_digest (ak set only by a digest = H(own nonce ++ stored secret)), auth_iff (decision logic of OP_AUTH, any state), non_auth_first_frame, bad_header_just_disconnects, wrong_length_never_matches. H is an arbitrary function. The nonce-variety clause is decided by the monitor on os.urandom only (stated in DESIGN.md).', BROKER_NOTE),
    'C08': ('Theorems over ALL histories: C08.follows_last_request (for a known connection, subscribed IFF the last processed (UN)SUBSCRIBE for that channel was a SUBSCRIBE — refinement to the request log, sequences of any length), registry_once, repeated_subscribe_noop, after_unsubscribe, unsubscribe_not_subscribed_noop, subscribe_resumes; Legacy.d2_still_subscribed is the pinned tree\'s counter-example.', BROKER_NOTE),
    'C10': ('Theorems for EVERY state and EVERY event: C10.untouched_by_others (an event about another connection or the clock leaves every field of a connection\'s record alone, except PUBLISH frames appended while it is open and forgetting it when it is already closing), closing_is_own, open_stays_subscribed, only_publishes_from_others; termination = totality of Broker.step / fuel-free Broker.loop (rests on C07). What a well-behaved connection is entitled to: C01 theorems hold for all histories.', BROKER_NOTE + ' Resource exhaustion and hangs inside C code are runtime: per-event watchdog only.'),
    'C14': ('Theorems: C14.parks / auth_parks (an OP_AUTH with an asynchronous store records the look-up, pauses reading and leaves the following bytes in the unpacker verbatim), pending_inert (no event about another connection touches the parked bytes, pending look-ups, paused state or identity), verdict_success (exactly the synchronous authenticate state change followed by ONE loop pass over the parked bytes) with sync_auth_success (the synchronous path is the same function), verdict_failure (ERROR + close only; parked bytes never processed). The single end-to-end commutation theorem across the two store configurations (verdict_commutes in DESIGN.md) is NOT proved: partial, stated in the Lean file header.', BROKER_NOTE),
    'C15': ('Theorems: C15.fresh_grace, recovered_not_dropped, fire_iff_due (any state); deadline_is_last_stall (ALL histories: an armed deadline = time of the last pause_writing not followed by resume/expiry + 60 s); dropped_exactly_at_deadline and due_timer_fires_first (ALL valid histories: the clock never passes an armed deadline, the drop happens at exactly pause+60 000 ms and before any other event).', BROKER_NOTE + ' That asyncio calls pause_writing above the high-water mark is library behaviour (not proved).'),
    'C16': ('Three Lean models written separately from asyncio/protocol.py, blocking/protocol.py and twisted/protocol.py (they differ: asyncio\'s loop stops on a truthy handler result and its unknown-opcode branch returns True). Theorems C16.loops_equal / proto3_equiv: for EVERY byte buffer and EVERY chunk list the three produce the same observations (handler calls with arguments, protocol_error, bytes written, drop, crash) and leave the same bytes buffered — the differing branch is proved unreachable behind the decoder (read_some_of_header); drops_exactly, info_reply. Tie: identical chunks fed in lock-step to recording subclasses of the three real classes and to the three models.', 'Lean kernel + 3 standard axioms; recording subclasses and a fake transport; texts of protocol_error not compared.'),
    'C17': ('Thin proof + correspondence (as designed): theorems C17.table_configured / table_unknown (memory, JSON, SQLite as whole-string table look-ups for ARBITRARY strings), env_key_injective (variable names of two identities/attributes coincide only if the upper-cased identities and the attributes agree — whatever underscores the identities contain), env_lookup_spec, env_case_insensitive, no_channels_no_grant + split_no_empty (fix D3; Legacy.d3_empty_grant is the pinned counter-example), multi_first / multi_unknown. The hostile-string claim for the real sqlite/json/environ engines is carried by the correspondence run, which builds the REAL stores from generated tables (quotes, SQL, separators, path characters, NUL, case variants, non-ASCII case maps).', 'Lean kernel + 3 standard axioms; sqlite3, json, os.environ, str.upper are modelled not verified — partial on those engines, as stated in DESIGN.md.'),
    'C18': ('Theorems for ALL parsed contents and ALL reload sequences: C18.all_or_nothing (after a reload the database is exactly the previous one, or the complete new mapping, the latter iff the document is an object whose every entry passes the checks), entry_ok_iff, invalid_keeps_everything, reload_seq (after any sequence: the last valid file\'s mapping, or the initial database). Tie: real Authenticator.load() on valid tables, EVERY truncation prefix of a valid file, type-mutated entries, non-JSON, invalid UTF-8, missing and empty files, in sequences.', 'Lean kernel + 3 standard axioms; json.load is an input of the model; which file-system events trigger load() (inotify) is not modelled — partial there.'),
    'C19': ('Theorems over ALL histories (gauge invariant by induction over every model primitive, Lemmas/BrokerGauge): C19.connections_gauge (= number of registered connections) with quiescent_registered_iff_open, subscription_gauge (per identity AND channel = number of connections of that identity subscribed to it; never negative; no single-authentication assumption after fix D7), channel_total (per channel the gauges add up to the number of subscribed connections), all_zero_when_gone, made_and_lost_once, redundant_requests_move_nothing.', BROKER_NOTE + ' prometheus_client arithmetic is modelled by integer maps.'),
    'C09': ('Theorems over ALL histories and ALL continuations: C09.lost_forgets (after connection_lost in ANY state the record is unregistered, holds no subscription, is in no registry entry), lost_stable / unregistered_stable (stays so under every later event: late verdicts, deadline timers, other traffic), others_unaffected, unregistered_forgotten (covers the broker-forced loss).', BROKER_NOTE),
    'C11': ('One parametrized session model (asyncio ClientSession: autoStart, no loss delay; Twisted ClientSessionService: startService, retry delay). Theorems over ALL event sequences (application calls interleaved with accept / refuse / data in any chunking / loss / clock): C11.Aio.nothing_before_info (nothing is written on a connection before its OP_INFO was handled), first_frames (everything written on a connection begins with the OP_AUTH for the nonce of an OP_INFO that arrived on THAT connection, then one OP_SUBSCRIBE per channel of the set recorded then), handshake_uses_current_set, wanted_set (the set is a function of the application calls alone: subscribed and not since unsubscribed, including calls made while disconnected; duplicate-free). The blocking Client and the blocking thread session are being added (model + engine in progress): partial until then.', CLIENTS),
    'C12': ('Theorems over ALL event sequences: C12.Aio.handed_in_order (messages handed to read() so far ++ messages still queued = the OP_PUBLISH frames dispatched so far, in order, once, fields as decoded; a waiting reader implies an empty queue) and frames_are_the_bytes (the frames dispatched on a connection re-encode to exactly the bytes received on it minus the buffered tail — any chunking). asyncio and Twisted sessions; blocking Client / thread session in progress: partial until then.', CLIENTS),
    'C13': ('Bounded-response form of the liveness claim, for ANY state of each phase: C13.Aio.reconnects (lost -> new attempt at once (asyncio) or after the retry delay (Twisted); refused -> retry after 1 s; accepted -> fresh connection; OP_INFO -> AUTH + SUBSCRIBE for the wanted set), stays_started / started / start_attempts; close_bounded (close()/stopService() in EVERY started state: returns at once without a live transport, else closes it and returns at its loss), no_attempt_after_close (ALL continuations). Client.run in progress: partial until then.', CLIENTS),
    'C05': ('Theorem C05.roundtrip: for EVERY in-range message of every opcode the builder succeeds, its 4-byte header equals the bytes produced, the stream decoder yields exactly that one frame and the reader returns the original fields; plus obligations that the extracted limit table admits everything the builders emit. Tie: constants regenerated from protocol.py each run + differential run of msg*/Unpacker/read* against the model.',
            'Lean kernel + 3 standard axioms; struct, the UTF-8 codec and SHA-1 are modelled (each compared with the implementation on every run); the correspondence generator bounds what the tie sees.'),
    'C06': ('Theorems C06.feed_chunks / feed_eq_drain_flatten / prompt / accounted: for every frame sequence and EVERY chunk list (induction on the chunk list, no bound) feeding yields exactly the frames, once, in order, each as soon as complete, leaving exactly the incomplete tail. Tie: exhaustive cut patterns of short streams and random cuts of long ones through the real Unpacker and the model.',
            'Lean kernel + 3 standard axioms; bytearray slicing of Unpacker.pop is modelled and compared each run.'),
    'C07': ('drain is a total function defined without fuel (its termination proof is the first obligation, and is exactly what the pinned tree lacked: Legacy.d1_no_progress); theorems C07.frames_wf / consumed / waits_or_rejects / reject_iff / bounded / bounded_chunks / any_chunking hold for ALL byte strings and chunkings. Tie: header lattice (all boundary lengths x opcodes x follow-ups x chunkings) and random bytes through the real Unpacker under an iteration watchdog.',
            'Lean kernel + 3 standard axioms; struct.unpack signedness and the exception hierarchy are modelled and checked by the monitor.'),
}

CLIENTS = 'Lean kernel + 3 standard axioms; asyncio task machinery, Twisted ClientService, the queues and the transports are library code represented by the event vocabulary (scripted attempts, fake transports, virtual time); SHA-1 is a parameter; the tie is the correspondence run of this check on the real session classes.'
TECH = 'Lean 4 theorem over an executable model (kernel-checked, all inputs) + model/code correspondence check (differential, native Lean driver) + implementation-trace monitors for failing-input search'

checks, na = [], []
for p in props:
    pid = p['id']
    if pid in PROPS:
        text, note = TEXT[pid]
        checks.append({
            'property_id': pid,
            'quick_cmd': './check %s quick' % pid,
            'thorough_cmd': './check %s thorough' % pid,
            'evidence_file': 'evidence/%s.json' % pid,
            'replay_cmd_template': './check replay {path}',
            'engine': '+'.join(e for e, _ in PROPS[pid]['engines']),
            'level_claimed': {'category': 'proof', 'text': text, 'design_ref': 'DESIGN.md section 7, ' + pid},
            'level_note': note,
            'technique': TECH,
        })
    else:
        na.append({'property_id': pid, 'reason': 'check not built yet (build in progress; DESIGN.md section 11 build order)'})

engines = {}
for pid, cfg in PROPS.items():
    for e, _ in cfg['engines']:
        engines.setdefault(e, []).append(pid)

m = {
    'version': 1,
    'setup_cmd': './check setup',
    'hooks': {'guard': 'REP_HPFEEDS_VERIF',
              'enable': 'no source hooks: all instrumentation is harness-side (fake transports, subclassing, module-attribute patching); the guard name is reserved and unused',
              'baseline_off_cmd': 'cd /repo && /venv/bin/python -m pytest -ra -q -p no:cacheprovider --timeout=900 --continue-on-collection-errors',
              'source_commits': [], 'add_only': True},
    'engines': [{'name': e, 'path': 'harness/engines/%s.py' % e, 'serves_properties': sorted(ps),
                 'kind_free_text': 'correspondence engine: real hpfeeds classes in-process vs Lean model via lean/Driver (native), plus property monitors'}
                for e, ps in sorted(engines.items())],
    'checks': checks,
    'notes': 'One Lake project (lean/), one Python harness (harness/). ./check <id> <tier> regenerates constants from /repo, rebuilds, audits axioms, runs correspondence + monitors, writes evidence/<id>.json. Fixes to /repo: see known_findings.json (status=fixed).',
    'not_applicable': na,
}
json.dump(m, open(os.path.join(VERIF, 'MANIFEST.json'), 'w'), indent=1)
print('checks:', [c['property_id'] for c in checks], 'n/a:', len(na))
