"""Regenerate /verif/MANIFEST.json from harness/props.py (run by hand after changing the wiring)."""
import json
import os
import sys

HERE = os.path.dirname(os.path.abspath(__file__))
sys.path.insert(0, HERE)
from props import PROPS  # noqa: E402

VERIF = os.path.dirname(HERE)
props = [json.loads(l) for l in open(os.path.join(VERIF, 'properties.jsonl'))]

TEXT = {
    'C05': ('Theorem C05.roundtrip: for EVERY in-range message of every opcode the builder succeeds, its 4-byte header equals the bytes produced, the stream decoder yields exactly that one frame and the reader returns the original fields; plus obligations that the extracted limit table admits everything the builders emit. Tie: constants regenerated from protocol.py each run + differential run of msg*/Unpacker/read* against the model.',
            'Lean kernel + 3 standard axioms; struct, the UTF-8 codec and SHA-1 are modelled (each compared with the implementation on every run); the correspondence generator bounds what the tie sees.'),
    'C06': ('Theorems C06.feed_chunks / feed_eq_drain_flatten / prompt / accounted: for every frame sequence and EVERY chunk list (induction on the chunk list, no bound) feeding yields exactly the frames, once, in order, each as soon as complete, leaving exactly the incomplete tail. Tie: exhaustive cut patterns of short streams and random cuts of long ones through the real Unpacker and the model.',
            'Lean kernel + 3 standard axioms; bytearray slicing of Unpacker.pop is modelled and compared each run.'),
    'C07': ('drain is a total function defined without fuel (its termination proof is the first obligation, and is exactly what the pinned tree lacked: Legacy.d1_no_progress); theorems C07.frames_wf / consumed / waits_or_rejects / reject_iff / bounded / bounded_chunks / any_chunking hold for ALL byte strings and chunkings. Tie: header lattice (all boundary lengths x opcodes x follow-ups x chunkings) and random bytes through the real Unpacker under an iteration watchdog.',
            'Lean kernel + 3 standard axioms; struct.unpack signedness and the exception hierarchy are modelled and checked by the monitor.'),
}

TECH = 'Lean 4 theorem over an executable model (kernel-checked, all inputs) + model/code correspondence check (differential, native Lean driver) + implementation-trace monitors for failing-input search'

checks, na = [], []
for p in props:
    pid = p['id']
    if pid in PROPS:
        text, note = TEXT[pid]
        checks.append({
            'property_id': pid,
            'quick_cmd': './check %s quick' % pid,
            'thorough_cmd': './check %s thorough' % pid,
            'evidence_file': 'evidence/%s.json' % pid,
            'replay_cmd_template': './check replay {path}',
            'engine': '+'.join(e for e, _ in PROPS[pid]['engines']),
            'level_claimed': {'category': 'proof', 'text': text, 'design_ref': 'DESIGN.md section 7, ' + pid},
            'level_note': note,
            'technique': TECH,
        })
    else:
        na.append({'property_id': pid, 'reason': 'check not built yet (build in progress; DESIGN.md section 11 build order)'})

engines = {}
for pid, cfg in PROPS.items():
    for e, _ in cfg['engines']:
        engines.setdefault(e, []).append(pid)

m = {
    'version': 1,
    'setup_cmd': './check setup',
    'hooks': {'guard': 'REP_HPFEEDS_VERIF',
              'enable': 'no source hooks: all instrumentation is harness-side (fake transports, subclassing, module-attribute patching); the guard name is reserved and unused',
              'baseline_off_cmd': 'cd /repo && /venv/bin/python -m pytest -ra -q -p no:cacheprovider --timeout=900 --continue-on-collection-errors',
              'source_commits': [], 'add_only': True},
    'engines': [{'name': e, 'path': 'harness/engines/%s.py' % e, 'serves_properties': sorted(ps),
                 'kind_free_text': 'correspondence engine: real hpfeeds classes in-process vs Lean model via lean/Driver (native), plus property monitors'}
                for e, ps in sorted(engines.items())],
    'checks': checks,
    'notes': 'One Lake project (lean/), one Python harness (harness/). ./check <id> <tier> regenerates constants from /repo, rebuilds, audits axioms, runs correspondence + monitors, writes evidence/<id>.json. Fixes to /repo: see known_findings.json (status=fixed).',
    'not_applicable': na,
}
json.dump(m, open(os.path.join(VERIF, 'MANIFEST.json'), 'w'), indent=1)
print('checks:', [c['property_id'] for c in checks], 'n/a:', len(na))
