"""./check <Cxx> quick|thorough | setup | replay <file> | all [tier] | selftest [seed ids | pinned] | harmless [ids] [Cxx ...]

Decision procedure (DESIGN.md section 4):
  1 regenerate Extracted.lean from /repo, build driver + the property's theorem module
  2 audit (forbidden constructs, #print axioms)
  3 correspondence: engines run model and implementation on the same scripts
  4 monitors state the property on the implementation's traces (failing-input search)
  5 verdict + evidence
Exit 0 = held on everything explored; 1 = VIOLATION line printed; 2 = harness trouble / time-out.
"""
import importlib
import json
import os
import sys
import time
import traceback

HERE = os.path.dirname(os.path.abspath(__file__))
sys.path.insert(0, HERE)
VERIF = os.path.dirname(HERE)

import compat  # noqa: E402,F401
import audit  # noqa: E402
import extract  # noqa: E402
import lean_driver  # noqa: E402
from evidence import write_evidence, write_replay  # noqa: E402
from props import PROPS, TRUSTED_COMMON  # noqa: E402


def load_known():
    p = os.path.join(VERIF, 'known_findings.json')
    try:
        return json.load(open(p))
    except OSError:
        return {'findings': []}


def setup():
    ok, info = extract.extract()
    if not ok:
        print('extract failed:', info)
    r = lean_driver.lake_build(['Hpfeeds', 'driver'])
    print(r.log[-3000:])
    import compileall
    compileall.compile_dir(HERE, quiet=1)
    return 0 if (ok and r.ok) else 1


def run_engines(prop, cfg, tier, seed, drv):
    results = []
    for name, kw in cfg['engines']:
        mod = importlib.import_module('engines.' + name)
        # corpus first: hand-written defect shapes and minimised past failures
        cdir = os.path.join(VERIF, 'corpus', name)
        if os.path.isdir(cdir):
            for f in sorted(os.listdir(cdir)):
                if f.endswith('.json'):
                    item = json.load(open(os.path.join(cdir, f)))
                    try:
                        r = mod.replay(item['script'], drv)
                    except Exception as e:
                        # a pinned history that the tree under test cannot even execute (the implementation left the
                        # script's event contract, e.g. made no attempt where one is refused): that is a difference
                        # between model and code, not a harness failure - the generated search goes on
                        from engines import Result
                        r = Result(name)
                        r.disagree('corpus script %s cannot be executed on this tree: %s' % (f, repr(e)[:200]), item['script'], 'exception', 'executes')
                    r.stats['corpus-scripts'] += 1
                    r.evaluations += 0 if r.evaluations else 1
                    results.append(r)
        results.append(mod.run(tier=tier, seed=seed, drv=drv, **kw))
    return results


def check(prop, tier, seed):
    t0 = time.time()
    cfg = PROPS[prop]
    notes = []
    # ---- 1. regenerate + build
    ex_ok, ex_info = extract.extract()
    if not ex_ok:
        notes.append('constant extraction failed: %s' % str(ex_info)[:500])
    b_drv = lean_driver.lake_build(['driver'])
    b_thm = lean_driver.lake_build([cfg['module']])
    if tier == 'thorough' and b_thm.ok:
        # clean rebuild of the property's module is implied by lake's hashing; run the independent checker
        pass
    # ---- 2. audit
    forbidden = audit.grep_forbidden()
    names = audit.theorems_of(os.path.join(lean_driver.LEAN, cfg['file']))
    axioms, audit_out = ({n: None for n in names}, '')
    if b_thm.ok:
        axioms, audit_out = audit.print_axioms(prop, cfg['module'], names)
    discharged = 0
    bad_theorems = []
    for n in names:
        ax = axioms.get(n)
        if ax is not None and set(ax) <= audit.ALLOWED_AXIOMS and not forbidden:
            discharged += 1
        else:
            bad_theorems.append({'theorem': n, 'axioms': ax})
    leanchecker = None
    if tier == 'thorough' and b_thm.ok:
        import subprocess
        try:
            r = subprocess.run(['lake', 'env', 'leanchecker', cfg['module']], cwd=lean_driver.LEAN,
                               capture_output=True, text=True, timeout=1800)
            leanchecker = {'rc': r.returncode, 'tail': (r.stdout + r.stderr)[-400:]}
            if r.returncode != 0:
                bad_theorems.append({'theorem': '<leanchecker %s>' % cfg['module'], 'axioms': None})
                discharged = 0
        except Exception as e:
            leanchecker = {'rc': -1, 'tail': repr(e)}
    proof_ok = b_thm.ok and not bad_theorems and not forbidden and ex_ok and len(names) > 0
    # ---- 3/4. correspondence + monitors
    drv = None
    if b_drv.ok:
        try:
            drv = lean_driver.Driver()
        except Exception as e:
            notes.append('driver failed to start: %r' % e)
    results = []
    try:
        results = run_engines(prop, cfg, tier, seed, drv)
    finally:
        if drv is not None:
            drv.close()
    violations = [v for r in results for v in r.violations if v['property'] == prop]
    other_violations = [v for r in results for v in r.violations if v['property'] != prop]
    disagreements = [d for r in results for d in r.disagreements]
    errors = [e for r in results for e in r.errors]
    # ---- 5. verdict
    known = load_known()
    known_keys = {(f['property'], f['key']): f for f in known.get('findings', []) if f.get('status') == 'known'}
    out_lines = []
    new_violations = []
    seen_known = set()
    for v in violations:
        k = (prop, v.get('key') or v['rule'])
        if k in known_keys:
            if k not in seen_known:
                seen_known.add(k)
                out_lines.append('KNOWN-FINDING: property=%s %s' % (prop, known_keys[k]['what']))
        else:
            new_violations.append(v)
    rc = 0
    replay_path = None
    if new_violations:
        # report the violation with the smallest script (there is no general shrinker; the smallest of the failing
        # histories found is the most readable replay)
        def _size(v_):
            try:
                return len(json.dumps(v_['script']))
            except Exception:
                return 10 ** 9
        v = min(new_violations, key=_size)
        replay_path = write_replay(prop, 'violation', {'property': prop, 'kind': 'violation', 'engine': v['engine'],
                                                       'rule': v['rule'], 'key': v.get('key'), 'what': v['what'], 'script': v['script']})
        out_lines.append('VIOLATION property=%s replay=%s' % (prop, replay_path))
        rc = 1
    elif not proof_ok or disagreements or drv is None:
        what = []
        if not ex_ok:
            what.append('constant extraction from hpfeeds/protocol.py failed')
        if not b_thm.ok:
            what.append('theorem module %s no longer builds: %s' % (cfg['module'], lean_driver.build_errors(b_thm.log)[:5]))
        if not b_drv.ok:
            what.append('model driver no longer builds: %s' % lean_driver.build_errors(b_drv.log)[:5])
        if bad_theorems:
            what.append('theorems not discharged / axiom audit failed: %s' % bad_theorems[:10])
        if forbidden:
            what.append('forbidden constructs in Lean sources: %s' % forbidden[:10])
        if not names:
            what.append('no theorems found in %s' % cfg['file'])
        if disagreements:
            what.append('correspondence broken (%d disagreements); first: %s' % (len(disagreements), json.dumps(disagreements[0], default=str)[:1500]))
        replay_path = write_replay(prop, 'unproved', {
            'property': prop, 'kind': 'no-failing-input-found', 'what': what,
            'disagreement': disagreements[0] if disagreements else None,
            'theorems': bad_theorems, 'module': cfg['module']})
        out_lines.append('VIOLATION property=%s replay=%s no-failing-input-found' % (prop, replay_path))
        rc = 1
    if errors:
        notes += errors
        if rc == 0:
            rc = 2
    # ---- evidence
    evaluations = sum(r.evaluations for r in results)
    nontrivial = set()
    for r in results:
        nontrivial |= {r.engine + ':' + h for h in r.nontrivial}
    stats = {}
    for r in results:
        for k, v in r.stats.items():
            stats[r.engine + '.' + k] = v
    samples = []
    for r in results:
        samples += [{'engine': r.engine, 'case': s} for s in r.samples[:4]]
    samples += [{'obligation': n, 'axioms': axioms.get(n)} for n in names[:40]]
    coverage = {
        'obligations': len(names), 'discharged': discharged,
        'checker_cmd': 'cd /verif/lean && lake build %s && lake env lean .lake/Audit_%s.lean   # #print axioms per theorem' % (cfg['module'], prop)
                       + ('; lake env leanchecker %s' % cfg['module'] if tier == 'thorough' else ''),
        'trusted_base': TRUSTED_COMMON + cfg.get('trusted', []),
        'theorems': {n: axioms.get(n) for n in names},
        'evaluations': evaluations, 'distinct_nontrivial': len(nontrivial),
        'rule': 'correspondence: each evaluation runs one generated/enumerated script on the real hpfeeds classes and on the Lean model (native driver) and compares canonical observations; the property monitors run on the implementation trace. distinct_nontrivial counts distinct canonical script digests that reach the property mechanism (per-engine rule in DESIGN.md section 7)',
        'samples': samples,
        'traces_validated_against_impl': evaluations if drv is not None else 0,
        'disagreements': len(disagreements), 'monitor_violations': len(violations),
        'violations_of_other_properties_seen': sorted({v['property'] + ':' + v['rule'] for v in other_violations}),
        'distribution': stats,
        'extracted': ex_info, 'build': {'driver_ok': b_drv.ok, 'theorems_ok': b_thm.ok, 'build_s': round(b_drv.wall + b_thm.wall, 1)},
        'leanchecker': leanchecker, 'forbidden_hits': forbidden, 'notes': notes,
        'repo_root': compat.REPO_ROOT,
    }
    assumptions = sorted({a for r in results for a in r.assumptions})
    write_evidence(prop, tier, seed, coverage, assumptions, time.time() - t0,
                   len(new_violations) + (1 if rc == 1 and not new_violations else 0))
    for l in out_lines:
        print(l)
    print('%s %s seed=%s: theorems %d/%d, evaluations %d (distinct non-trivial %d), disagreements %d, monitor hits %d, %.1fs -> exit %d'
          % (prop, tier, seed, discharged, len(names), evaluations, len(nontrivial), len(disagreements), len(violations), time.time() - t0, rc))
    for n in notes:
        print('note:', n)
    return rc


def replay(path):
    rp = json.load(open(path if os.path.isabs(path) else os.path.join(VERIF, path)))
    if rp.get('kind') == 'no-failing-input-found' and not rp.get('disagreement'):
        print(json.dumps(rp, indent=1)[:4000])
        return 0
    item = rp.get('disagreement') or rp
    mod = importlib.import_module('engines.' + item['engine'])
    extract.extract()
    b = lean_driver.lake_build(['driver'])
    drv = lean_driver.Driver() if b.ok else None
    try:
        res = mod.replay(item['script'], drv)
    finally:
        if drv:
            drv.close()
    for v in res.violations:
        print('violation: property=%s rule=%s: %s' % (v['property'], v['rule'], v['what']))
    for d in res.disagreements:
        print('disagreement: %s\n  impl : %s\n  model: %s' % (d['what'], d['impl'], d['model']))
    if not res.violations and not res.disagreements:
        print('replay: no violation, no disagreement on this tree')
        return 0
    return 1


PINNED = '9abd2ac'
PINNED_PROPS = ['C07', 'C08', 'C10', 'C11', 'C13', 'C14', 'C17', 'C19']     # the properties D1-D9 broke


def selftest(ids):
    """Re-evaluate seeded changes (and, with `pinned`, the unrepaired pinned tree) WITHOUT touching /repo's working
    tree: a scratch git worktree under /var/tmp gets the patch, the property's quick check runs on it through
    VERIF_REPO_ROOT with evidence/replays redirected, and must exit 1 with a failing input."""
    import shutil
    import subprocess
    import tempfile
    seeded = os.path.join(VERIF, 'seeded')
    ids = ids or sorted(d for d in os.listdir(seeded) if os.path.exists(os.path.join(seeded, d, 'patch.diff')))
    bad = []
    for sid in ids:
        wt = tempfile.mkdtemp(prefix='hpfeeds_selftest_', dir='/var/tmp')
        out = tempfile.mkdtemp(prefix='hpfeeds_selftest_out_', dir='/var/tmp')
        os.rmdir(wt)
        try:
            rev = PINNED if sid == 'pinned' else 'HEAD'
            r = subprocess.run(['git', '-C', '/repo', 'worktree', 'add', '--detach', '-q', wt, rev], capture_output=True, text=True)
            if r.returncode != 0:
                print(sid, 'worktree failed:', r.stderr[-300:])
                bad.append(sid)
                continue
            if sid == 'pinned':
                props = PINNED_PROPS
            else:
                patch = os.path.join(seeded, sid, 'patch.diff')
                r = subprocess.run(['git', 'apply', patch], cwd=wt, capture_output=True, text=True)
                if r.returncode != 0:
                    print(sid, 'patch does not apply to /repo HEAD:', r.stderr[-300:])
                    bad.append(sid)
                    continue
                props = [sid.split('-')[0]]
            env = dict(os.environ, VERIF_REPO_ROOT=wt, VERIF_OUT=out)
            for p in props:
                r = subprocess.run([sys.executable, os.path.abspath(__file__), p, 'quick'], env=env, capture_output=True, text=True, timeout=3000)
                vio = [l for l in r.stdout.splitlines() if l.startswith('VIOLATION')]
                ok = r.returncode == 1 and vio and 'no-failing-input-found' not in vio[0]
                print('%-8s %s exit=%d %s' % (sid, p, r.returncode, 'caught with a failing input' if ok else ('caught, no failing input' if r.returncode == 1 else 'MISSED')), flush=True)
                if not ok:
                    bad.append('%s/%s' % (sid, p))
        finally:
            subprocess.run(['git', '-C', '/repo', 'worktree', 'remove', '--force', wt], capture_output=True)
            shutil.rmtree(wt, ignore_errors=True)
            shutil.rmtree(out, ignore_errors=True)
    # leave the generated constants as the real tree has them
    extract.extract()
    print('selftest: %d evaluated, not caught with a failing input: %s' % (len(ids), bad or 'none'))
    return 1 if bad else 0


def harvest(ids):
    """Pin the failing input of every seeded change: run the seed's check on a scratch worktree, take the replay it
    reports, confirm that the same script runs clean (no violation, no disagreement) on the unchanged tree and on the
    mutant reproduces the violation, and keep it as corpus/<engine>/seed_<id>.json - the corpus runs first in every
    check, so detection of these shapes no longer depends on what the random generators happen to produce."""
    import glob
    import shutil
    import subprocess
    import tempfile
    seeded = os.path.join(VERIF, 'seeded')
    ids = ids or sorted(d for d in os.listdir(seeded) if os.path.exists(os.path.join(seeded, d, 'patch.diff')))
    kept, skipped = [], []
    for sid in ids:
        prop = sid.split('-')[0]
        wt = tempfile.mkdtemp(prefix='hpfeeds_harvest_', dir='/var/tmp')
        out = tempfile.mkdtemp(prefix='hpfeeds_harvest_out_', dir='/var/tmp')
        os.rmdir(wt)
        try:
            subprocess.run(['git', '-C', '/repo', 'worktree', 'add', '--detach', '-q', wt, 'HEAD'], capture_output=True, text=True)
            r = subprocess.run(['git', 'apply', os.path.join(seeded, sid, 'patch.diff')], cwd=wt, capture_output=True, text=True)
            if r.returncode != 0:
                skipped.append((sid, 'patch does not apply'))
                continue
            env = dict(os.environ, VERIF_REPO_ROOT=wt, VERIF_OUT=out)
            subprocess.run([sys.executable, os.path.abspath(__file__), prop, 'quick'], env=env, capture_output=True, text=True, timeout=3000)
            files = sorted(glob.glob(os.path.join(out, 'replays', '%s_violation_*.json' % prop)))
            if not files:
                skipped.append((sid, 'no failing input reported'))
                continue
            rp = json.load(open(files[0]))
            engine, script = rp.get('engine'), rp.get('script')
            if not engine or not isinstance(script, dict):
                skipped.append((sid, 'replay has no engine/script'))
                continue
            item = {'engine': engine, 'note': 'failing input of seeded change %s (%s / %s): %s' % (sid, rp.get('property'), rp.get('rule'), str(rp.get('what'))[:300]), 'script': script}
            text = json.dumps(item)
            if len(text) > 300000:
                skipped.append((sid, 'script too large (%d bytes)' % len(text)))
                continue
            tmpf = os.path.join(out, 'candidate.json')
            open(tmpf, 'w').write(text)
            # must reproduce on the mutant ...
            r1 = subprocess.run([sys.executable, os.path.abspath(__file__), 'replay', tmpf], env=env, capture_output=True, text=True, timeout=600)
            # ... and run clean on the unchanged tree
            env0 = {k: v for k, v in os.environ.items() if k not in ('VERIF_REPO_ROOT', 'VERIF_OUT')}
            r0 = subprocess.run([sys.executable, os.path.abspath(__file__), 'replay', tmpf], env=env0, capture_output=True, text=True, timeout=600)
            if r1.returncode != 1 or ('property=%s' % prop) not in r1.stdout:
                skipped.append((sid, 'replay does not reproduce on the mutant (rc=%d)' % r1.returncode))
                continue
            if r0.returncode != 0:
                skipped.append((sid, 'replay is not clean on the unchanged tree: %s' % r0.stdout[-200:]))
                continue
            cdir = os.path.join(VERIF, 'corpus', engine)
            os.makedirs(cdir, exist_ok=True)
            json.dump(item, open(os.path.join(cdir, 'seed_%s.json' % sid), 'w'), indent=1)
            kept.append(sid)
            print('%-8s kept   corpus/%s/seed_%s.json (%d bytes)' % (sid, engine, sid, len(text)), flush=True)
        except Exception as e:
            skipped.append((sid, repr(e)[:200]))
        finally:
            subprocess.run(['git', '-C', '/repo', 'worktree', 'remove', '--force', wt], capture_output=True)
            shutil.rmtree(wt, ignore_errors=True)
            shutil.rmtree(out, ignore_errors=True)
    extract.extract()
    for sid, why in skipped:
        print('%-8s skipped: %s' % (sid, why))
    print('harvest: %d kept, %d skipped' % (len(kept), len(skipped)))
    return 0


def harmless(ids):
    """False-alarm regression: every /verif/harmless/<id>/patch.diff is a behaviour-preserving rewrite of /repo (the
    properties still hold).  Each is applied to a scratch worktree and EVERY check must still exit 0 on it."""
    import shutil
    import subprocess
    import tempfile
    hdir = os.path.join(VERIF, 'harmless')
    args = [a for a in ids if a not in PROPS]
    only = [a for a in ids if a in PROPS]
    ids = args or sorted(d for d in os.listdir(hdir) if os.path.exists(os.path.join(hdir, d, 'patch.diff')))
    alarms = []
    for hid in ids:
        wt = tempfile.mkdtemp(prefix='hpfeeds_harmless_', dir='/var/tmp')
        out = tempfile.mkdtemp(prefix='hpfeeds_harmless_out_', dir='/var/tmp')
        os.rmdir(wt)
        try:
            r = subprocess.run(['git', '-C', '/repo', 'worktree', 'add', '--detach', '-q', wt, 'HEAD'], capture_output=True, text=True)
            if r.returncode != 0:
                print(hid, 'worktree failed:', r.stderr[-300:])
                alarms.append(hid)
                continue
            r = subprocess.run(['git', 'apply', os.path.join(hdir, hid, 'patch.diff')], cwd=wt, capture_output=True, text=True)
            if r.returncode != 0:
                print(hid, 'patch does not apply to /repo HEAD:', r.stderr[-300:])
                alarms.append(hid)
                continue
            env = dict(os.environ, VERIF_REPO_ROOT=wt, VERIF_OUT=out)
            for p in only or sorted(PROPS):
                r = subprocess.run([sys.executable, os.path.abspath(__file__), p, 'quick'], env=env, capture_output=True, text=True, timeout=3000)
                if r.returncode != 0:
                    vio = [l for l in r.stdout.splitlines() if l.startswith('VIOLATION')]
                    what = ''
                    try:
                        rp = vio[0].split('replay=')[1].split()[0]
                        d = json.load(open(rp if os.path.isabs(rp) else os.path.join(out, rp)))
                        what = str(d.get('what'))[:600]
                    except Exception:
                        pass
                    print('%-6s %s exit=%d FALSE ALARM %s\n       %s' % (hid, p, r.returncode, (vio or r.stdout.splitlines()[-1:] or [''])[0], what), flush=True)
                    alarms.append('%s/%s' % (hid, p))
            print('%-6s done' % hid, flush=True)
        finally:
            subprocess.run(['git', '-C', '/repo', 'worktree', 'remove', '--force', wt], capture_output=True)
            shutil.rmtree(wt, ignore_errors=True)
            shutil.rmtree(out, ignore_errors=True)
    extract.extract()
    print('harmless: %d rewrites evaluated, alarms: %s' % (len(ids), alarms or 'none'))
    return 1 if alarms else 0


def main(argv):
    if not argv:
        print(__doc__)
        return 2
    if argv[0] == 'setup':
        return setup()
    if argv[0] == 'selftest':
        return selftest(argv[1:])
    if argv[0] == 'harmless':
        return harmless(argv[1:])
    if argv[0] == 'harvest':
        return harvest(argv[1:])
    if argv[0] == 'replay':
        return replay(argv[1])
    seed = int(os.environ.get('VERIF_SEED', '0') or 0)
    if argv[0] == 'all':
        tier = argv[1] if len(argv) > 1 else 'quick'
        rcs = {p: check(p, tier, seed) for p in sorted(PROPS)}
        print(rcs)
        return max(rcs.values())
    prop = argv[0]
    tier = argv[1] if len(argv) > 1 else os.environ.get('VERIF_TIER', 'quick')
    if prop not in PROPS:
        print('unknown property', prop)
        return 2
    try:
        return check(prop, tier, seed)
    except Exception:
        traceback.print_exc()
        return 2


if __name__ == '__main__':
    sys.exit(main(sys.argv[1:]))
