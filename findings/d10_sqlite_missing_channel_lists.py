"""D10 (C17): the SQLite credential store raises for an identity that was inserted without channel lists.

    /venv/bin/python findings/d10_sqlite_missing_channel_lists.py        (TREE=/repo by default)

exit 1 before the fix (get_authkey raises TypeError / JSONDecodeError), exit 0 after it (both lists are empty)."""
import contextlib
import io
import os
import sys

sys.path.insert(0, os.environ.get('TREE', '/repo'))
import hpfeeds.broker.auth.sqlite as SQL      # noqa: E402  (pure stdlib module)

with contextlib.redirect_stdout(io.StringIO()):
    a = SQL.Authenticator(':memory:')
# the natural way to configure an identity that may neither publish nor subscribe: leave the lists out
a.sql.execute("insert into authkeys (owner, ident, secret) values ('o', 'nolists', 's')")
a.sql.execute("insert into authkeys (owner, ident, secret, pubchans, subchans) values ('o', 'blank', 's', '', '')")
bad = 0
for ident in ('nolists', 'blank'):
    try:
        r = a.get_authkey(ident)
    except Exception as e:
        print('%s: get_authkey raises %r' % (ident, e))
        bad += 1
        continue
    if not r or r['secret'] != 's' or r['pubchans'] != [] or r['subchans'] != []:
        print('%s: returned %r' % (ident, r))
        bad += 1
print('violations:', bad)
sys.exit(1 if bad else 0)
