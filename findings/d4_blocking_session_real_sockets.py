import socket, threading, time, struct, sys, os
sys.path.insert(0, os.environ.get('TREE','/repo'))
from hpfeeds.blocking import ClientSession
from hpfeeds.protocol import msginfo, Unpacker, OP_AUTH
srv = socket.socket(); srv.bind(('127.0.0.1',0)); srv.listen(1)
port = srv.getsockname()[1]
got=[]
def server():
    c,_=srv.accept()
    time.sleep(0.3)
    c.sendall(msginfo('hp', b'\x01\x02\x03\x04'))
    c.settimeout(1.0)
    u=Unpacker()
    try:
        while len(got)<3:
            d=c.recv(4096)
            if not d: break
            u.feed(d)
            for op,data in u: got.append(op)
    except socket.timeout: pass
    c.close()
t=threading.Thread(target=server); t.start()
s=ClientSession('127.0.0.1',port,'id','sec')
s.start()
s.subscribe('early')           # before INFO
s._reactor.when_connected.wait(2)
s.subscribe('late'); 
t.join()
s._reactor.closing=True
print('ops seen by broker:', got)
os._exit(0 if got and got[0]==OP_AUTH else 1)
