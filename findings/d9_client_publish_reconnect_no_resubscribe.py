"""D9 (C11/C13): hpfeeds.client.Client - when publish() called from the message callback of run() hits a send
failure it reconnects and authenticates, and run() then keeps reading from the new connection without ever
sending OP_SUBSCRIBE on it.  Real localhost sockets.  Exit 0 = the new connection is resubscribed, 1 = it is not.
TREE=<checkout> selects the tree (default /repo)."""
import os
import socket
import struct
import sys
import threading
import time

sys.path.insert(0, os.environ.get('TREE', '/repo'))
import logging
logging.getLogger('pyhpfeeds').disabled = True
import hpfeeds.client as HC
from hpfeeds.protocol import msginfo, msgpublish, Unpacker, OP_AUTH, OP_SUBSCRIBE

srv = socket.socket()
srv.setsockopt(socket.SOL_SOCKET, socket.SO_REUSEADDR, 1)
srv.bind(('127.0.0.1', 0))
srv.listen(2)
port = srv.getsockname()[1]
seen = {1: [], 2: []}


def read_ops(c, k, seconds):
    u = Unpacker()
    c.settimeout(0.2)
    end = time.time() + seconds
    while time.time() < end:
        try:
            d = c.recv(4096)
        except socket.timeout:
            continue
        except OSError:
            break
        if not d:
            break
        u.feed(d)
        for op, data in u:
            seen[k].append(op)


def broker():
    c, _ = srv.accept()
    c.sendall(msginfo('hp', b'\x01\x02\x03\x04'))
    read_ops(c, 1, 0.5)                      # AUTH, SUBSCRIBE
    c.sendall(msgpublish('other', 'chan', b'please reply'))
    time.sleep(0.1)
    c.setsockopt(socket.SOL_SOCKET, socket.SO_LINGER, struct.pack('ii', 1, 0))
    c.close()                                # RST: the client's next send fails
    c2, _ = srv.accept()
    c2.sendall(msginfo('hp', b'\x05\x06\x07\x08'))
    read_ops(c2, 2, 1.5)
    c2.close()


t = threading.Thread(target=broker, daemon=True)
t.start()
client = HC.Client('127.0.0.1', port, 'me', 'secret', sleepwait=1)
client.subscribe('chan')


def on_message(ident, chan, payload):
    time.sleep(0.4)                          # the RST is in by now
    client.publish('replies', b'x')          # first send may still be buffered ...
    time.sleep(0.2)
    client.publish('replies', b'y')          # ... this one fails: Disconnect -> tryconnect()
    client.stop()


rt = threading.Thread(target=lambda: client.run(on_message, lambda e: None), daemon=True)
rt.start()
t.join(10)
print('connection 1, opcodes seen by the broker:', seen[1])
print('connection 2, opcodes seen by the broker:', seen[2])
ok = OP_AUTH in seen[2][:1] and OP_SUBSCRIBE in seen[2]
print('resubscribed on the new connection' if ok else 'NOT resubscribed on the new connection (D9)')
os._exit(0 if ok else 1)
